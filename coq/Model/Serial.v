(* Model/Serial.v — executable model of ModelModifier._serialize_large_model:
   constants are appended after the flatbuffer, each region padded to a
   multiple of 16 bytes; offsets are computed in a first pass over a dummy
   serialisation and the file is assembled in a second pass.  Bytes are a list
   of Z; the flatbuffer encoder is outside the model: only the two encoded
   flatbuffers (pass 1 with placeholder offsets, pass 2 with the real ones)
   enter, as byte lists.  No proofs here. *)
From Coq Require Import ZArith List Bool Lia.
Import ListNotations.
Open Scope Z_scope.

Definition lenZ {A} (l : list A) : Z := Z.of_nat (length l).

(* while len(b) % 16: b += b'\0' *)
Definition pad_amount (n : Z) : Z := (16 - n mod 16) mod 16.
Definition zeros (n : Z) : list Z := repeat 0 (Z.to_nat n).
Definition pad16 (b : list Z) : list Z := b ++ zeros (pad_amount (lenZ b)).

(* constant map: None = buffer without data (skipped in both passes) *)
Definition cmap := list (option (list Z)).

(* pass 1: offsets/sizes, starting from the current length of the dummy array *)
Fixpoint assign_offsets (cur : Z) (cm : cmap) : list (option (Z * Z)) * Z :=
  match cm with
  | [] => ([], cur)
  | None :: r => let '(l, e) := assign_offsets cur r in (None :: l, e)
  | Some d :: r =>
      let cur' := cur + lenZ d in
      let cur'' := cur' + pad_amount cur' in
      let '(l, e) := assign_offsets cur'' r in
      (Some (cur, lenZ d) :: l, e)
  end.

(* pass 2: append every constant with its padding *)
Fixpoint append_constants (acc : list Z) (cm : cmap) : list Z :=
  match cm with
  | [] => acc
  | None :: r => append_constants acc r
  | Some d :: r => append_constants (pad16 (acc ++ d)) r
  end.

Record large_out := { lo_table : list (option (Z * Z)); lo_bytes : list Z }.

Definition serialize_large (fb1 fb2 : list Z) (cm : cmap) : large_out :=
  {| lo_table := fst (assign_offsets (lenZ (pad16 fb1)) cm);
     lo_bytes := append_constants (pad16 fb2) cm |}.

Definition slice (off sz : Z) (b : list Z) : list Z :=
  firstn (Z.to_nat sz) (skipn (Z.to_nat off) b).
