(* Model/Lattice.v — the finite (operator, config, algorithm) lattice of C13
   and the accept/reject classification of the API model. No proofs here. *)
From VF Require Import Base.Prelude Gen.Enums Gen.Configs Gen.Registry Gen.Checks
     Model.Recipe Model.Check.

Definition lat_algs : list algname := [Alg_MIN_MAX_UNIFORM_QUANT; Alg_FLOAT_CASTING].
Definition lat_ops : list opname :=
  filter (fun o => negb (opname_eqb o Op_ALL_SUPPORTED)) opname_all.
Definition lat_acts : list (option tcfg) :=
  [None;
   Some (Mk_tcfg 8 true Gr_TENSORWISE Dt_INT 0); Some (Mk_tcfg 8 false Gr_TENSORWISE Dt_INT 0);
   Some (Mk_tcfg 16 true Gr_TENSORWISE Dt_INT 0); Some (Mk_tcfg 16 false Gr_TENSORWISE Dt_INT 0)].
Definition lat_wts : list tcfg :=
  flat_map (fun b => flat_map (fun s => flat_map (fun g => map (fun d =>
    Mk_tcfg b s g d 0) [Dt_INT; Dt_FLOAT]) [Gr_TENSORWISE; Gr_CHANNELWISE])
    [true; false]) [4; 8; 16].
Definition lat_cfgs : list ocfg :=
  flat_map (fun a => flat_map (fun w => flat_map (fun p => map (fun e =>
    Mk_ocfg a (Some w) p e false) [false; true]) [Prec_INTEGER; Prec_FLOAT])
    lat_wts) lat_acts.

Record point := { p_alg : algname; p_op : opname; p_cfg : ocfg }.
Definition lattice : list point :=
  flat_map (fun a => flat_map (fun o => map (fun c =>
    {| p_alg := a; p_op := o; p_cfg := c |}) lat_cfgs) lat_ops) lat_algs.

(* 0: the config cannot even be constructed (__post_init__ raises)
   1: refused with ValueError at update time (specific op) / skipped under '*'
   2: accepted
   3: any other exception (must not happen) *)
Definition classify (p : point) : Z :=
  match ocfg_post_init (p_cfg p) with
  | Err ValueError => 0
  | Err _ => 3
  | Ok _ =>
      match api_check (AK (p_alg p)) (p_op p) (p_cfg p) with
      | Ok _ => 2
      | Err ValueError => 1
      | Err _ => 3
      end
  end.

Definition accepted (p : point) : bool := Z.eqb (classify p) 2.

(* bit width -> tflite tensor type is defined (quantize_tensor.py); modelled
   by the translated function in Gen/Decisions.v once available; here the
   widths the lattice can produce. *)
Definition transformations_defined (c : ocfg) : bool :=
  forallb (fun ib => forallb (fun k => is_ok (get_tensor_transformations c ib k))
                             [false; true]) [false; true].
