(* Model/Sem.v — evaluation of an abstract subgraph (Model/Graph.v) under an
   ARBITRARY kernel semantics: the meaning of an operator is a function of its
   builtin-code index, its options identity and the VALUES of its operands
   (never of the operand indices).  Values are abstract.  No proofs here. *)
From VF Require Import Base.Prelude Model.Graph.

Section Sem.
  Variable val : Type.
  (* kernel semantics: code index, options id, operand values (None = absent) *)
  Variable K : Z -> Z -> list (option val) -> list val.

  Definition env := Z -> option val.
  Definition upd (e : env) (k : Z) (v : val) : env :=
    fun x => if Z.eqb x k then Some v else e x.
  Fixpoint upd_list (e : env) (ks : list Z) (vs : list val) : env :=
    match ks, vs with
    | k :: ks', v :: vs' => upd_list (upd e k v) ks' vs'
    | _, _ => e
    end.
  Definition operand (e : env) (i : Z) : option val := if Z.eqb i (-1) then None else e i.
  Definition step (e : env) (o : op) : env :=
    upd_list e (o_outs o) (K (o_code o) (o_uid o) (map (operand e) (o_ins o))).
  Definition run (ops : list op) (e : env) : env := fold_left step ops e.
End Sem.
