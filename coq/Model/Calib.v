(* Model/Calib.v — executable model of calibrator.Calibrator (+ the qsv
   initialisation / per-sample collection of naive_min_max_quantize and
   float_casting) with statistics as TERMS over the per-sample tensor min/max,
   which the harness obtains from its own interpreter run.  No proofs here. *)
From VF Require Import Base.Prelude Gen.Enums Gen.Configs Gen.Registry Gen.Checks
     Gen.Scopes Model.Recipe Model.Check Model.Graph Model.Plan.

(* value of one entry of the statistics dict *)
Inductive qval :=
| QEmpty                                   (* {} : runtime tensor, nothing recorded yet *)
| QConst (c : cid_t) (qd : qdim_t)         (* true min/max of a constant along qd *)
| QPrev (n : name_t)                       (* entry of the previous result passed in *)
| QSample (n : name_t) (k : Z)             (* min/max of tensor n in sample k *)
| QUpd (old new : qval).                   (* qsv_update_func(old, new) *)

Fixpoint J_qval (q : qval) : J :=
  match q with
  | QEmpty => JL [JZ 0]
  | QConst c qd => JL [JZ 1; J_cid c; J_qdim qd]
  | QPrev n => JL [JZ 2; J_name n]
  | QSample n k => JL [JZ 3; J_name n; JZ k]
  | QUpd a b => JL [JZ 4; J_qval a; J_qval b]
  end.

Definition qstore := list (name_t * qval).
Fixpoint qs_get (s : qstore) (n : name_t) : option qval :=
  match s with
  | [] => None
  | (k, v) :: r => if name_eqb2 k n then Some v else qs_get r n
  end.
Fixpoint qs_set (s : qstore) (n : name_t) (v : qval) : qstore :=
  match s with
  | [] => [(n, v)]
  | (k, w) :: r => if name_eqb2 k n then (k, v) :: r else (k, w) :: qs_set r n v
  end.
Definition J_qstore (s : qstore) : J :=
  Jlist (fun kv => JL [J_name (fst kv); J_qval (snd kv)]) s.

Section Calib.
  Variable matches : Z -> Z -> bool.
  Variable rules : state.
  Variable bufs : list bufval.
  Variable scope_id : Z -> list stok -> Z.

  (* calibration-side op view: scope from the translated Calibrator._get_op_scope *)
  Record cop := { co_id : Z; co_key : option opname; co_ins : list Z; co_outs : list Z;
                  co_scope : Z; co_adjy : bool }.

  Definition real_cops (gi : Z) (opcodes : list Z) (g : subgraph) (adjy : list bool) : list cop :=
    map (fun x => let '((i, o), a) := x in
      {| co_id := i;
         co_key := match nthZ opcodes (o_code o) with
                   | Some c => opname_of_code c | None => None end;
         co_ins := o_ins o; co_outs := o_outs o;
         co_scope := scope_id gi (scope_calibrator (o_outs o)); co_adjy := a |})
      (combine (enumerate (sg_ops g)) adjy).

  Definition io_cops (gi : Z) (g : subgraph) : list cop :=
    [{| co_id := -1; co_key := Some Op_INPUT; co_ins := []; co_outs := sg_inputs g;
        co_scope := scope_id gi (scope_calibrator (sg_inputs g)); co_adjy := false |};
     {| co_id := -1; co_key := Some Op_OUTPUT; co_ins := sg_outputs g; co_outs := [];
        co_scope := scope_id gi (scope_calibrator []); co_adjy := false |}].

  Definition selected (op : cop) : option (akey * ocfg * opname) :=
    match co_key op with
    | None => None
    | Some o => let '(a, c) := get check matches rules o (co_scope op) in
                if is_noquant a then None else Some (a, c, o)
    end.

  Definition present (l : list Z) : list Z := filter (fun x => negb (Z.eqb x (-1))) l.

  (* naive_min_max_quantize.init_qsvs / float_casting.init_qsvs *)
  Definition init_op (ts : list tensor) (op : cop) (a : algname) (c : ocfg) (o : opname)
    : res (list (name_t * qval)) :=
    if negb (is_op_registered (AK a) o) then Err ValueError else
    match a with
    | Alg_MIN_MAX_UNIFORM_QUANT =>
        mapM (fun x =>
          t <- py_index ts x ;;
          if is_const bufs t then
            if is_blockwise c then Err OtherError
            else Ok (tname t, QConst (tcid t) (init_qdim o c t (co_adjy op)))
          else Ok (tname t, QEmpty)) (present (co_ins op) ++ present (co_outs op))
    | _ => Ok []
    end.

  (* _initialize_model_qsvs: real ops of EVERY subgraph; first writer wins *)
  Definition initialize (m : model) (adjy : list (list bool)) (s : qstore) : res qstore :=
    foldM (fun s gx =>
      let '(gi, (g, ad)) := gx in
      foldM (fun s op =>
        match selected op with
        | None => Ok s
        | Some (a, c, o) =>
            a' <- algname_of a ;;
            es <- init_op (sg_tensors g) op a' c o ;;
            (* dict semantics: duplicates inside one op collapse (last wins);
               then only names not yet in the model qsvs are taken *)
            let es' := fold_left (fun acc e => qs_set acc (fst e) (snd e)) es [] in
            Ok (fold_left (fun s e => match qs_get s (fst e) with
                                      | Some _ => s | None => qs_set s (fst e) (snd e) end)
                          es' s)
        end) (real_cops gi (m_opcodes m) g ad) s)
      (enumerate (combine (m_subgraphs m) adjy)) s.

  (* min_max_calibrate / float_casting.calibrate for one op in sample k *)
  Definition collect_op (ts : list tensor) (op : cop) (a : algname) (k : Z)
    : res (list (name_t * qval)) :=
    match a with
    | Alg_MIN_MAX_UNIFORM_QUANT =>
        r <- mapM (fun x =>
          t <- py_index ts x ;;
          if is_const bufs t then Ok [] else Ok [(tname t, QSample (tname t) k)])
          (present (co_ins op) ++ present (co_outs op)) ;;
        Ok (fold_left (fun acc e => qs_set acc (fst e) (snd e)) (concat r) [])
    | _ => Ok []
    end.

  (* calibration_utils.moving_average_update: `if not qsv: return new_qsv` *)
  Definition update (old new : qval) : qval :=
    match old with QEmpty => new | _ => QUpd old new end.

  (* what one (selected) op contributes in sample k: every collected tensor is
     folded into the store unless it was already updated in this sample *)
  Definition sample_step (g : subgraph) (k : Z) (st : qstore * list name_t) (op : cop)
    : res (qstore * list name_t) :=
    let '(s, updated) := st in
    match selected op with
    | None => Ok (s, updated)
    | Some (a, c, o) =>
        a' <- algname_of a ;;
        if negb (is_op_registered (AK a') o) then Err ValueError else
        es <- collect_op (sg_tensors g) op a' k ;;
        Ok (fold_left (fun st e =>
              let '(s, upd) := st in
              if existsb (name_eqb2 (fst e)) upd then (s, upd)
              else match qs_get s (fst e) with
                   | None => (qs_set s (fst e) (snd e), fst e :: upd)
                   | Some old => (qs_set s (fst e) (update old (snd e)), fst e :: upd)
                   end) es (s, updated))
    end.

  (* one sample labelled k, with [copies] copies of the virtual I/O operators
     after the real ops; a tensor is updated at most once per sample *)
  Definition one_sample_gen (m : model) (gi : Z) (g : subgraph) (ad : list bool)
             (copies : nat) (k : Z) (s : qstore) : res qstore :=
    let ops := real_cops gi (m_opcodes m) g ad ++ concat (repeat (io_cops gi g) copies) in
    r <- foldM (sample_step g k) ops (s, []) ;;
    Ok (fst r).

  (* the implementation appends the I/O operators to the subgraph's operator
     list on EVERY sample, so sample k visits ops ++ (k+1) copies of [I; O] *)
  Definition one_sample (m : model) (gi : Z) (g : subgraph) (ad : list bool) (k : Z)
             (s : qstore) : res qstore :=
    one_sample_gen m gi g ad (Z.to_nat (k + 1)) k s.

  (* Quantizer.calibrate: fresh Calibrator; previous result deep-copied in;
     initialisation only when the store is empty *)
  Definition calibrate (m : model) (adjy : list (list bool)) (sig_sg : Z)
             (prev : option (list name_t)) (n_samples : Z) : res qstore :=
    if negb (need_calibration rules) then Ok [] else
    let s0 : qstore := match prev with
                       | Some ns => map (fun n => (n, QPrev n)) ns | None => [] end in
    s1 <- (match s0 with [] => initialize m adjy s0 | _ => Ok s0 end) ;;
    g <- py_index (m_subgraphs m) sig_sg ;;
    ad <- py_index adjy sig_sg ;;
    foldM (fun s k => one_sample m sig_sg g ad k s)
          (map Z.of_nat (seq 0 (Z.to_nat n_samples))) s1.

  (* the set of operators treated as quantized while calibrating / quantizing *)
  Definition selected_cal (m : model) (adjy : list (list bool)) (gi : Z) : res (list Z) :=
    g <- py_index (m_subgraphs m) gi ;; ad <- py_index adjy gi ;;
    Ok (map co_id (filter (fun op => negb (is_none (selected op)))
                          (real_cops gi (m_opcodes m) g ad ++ io_cops gi g))).
End Calib.
