(* Model/Check.v — default_policy unrolling and the support-check dispatch of
   algorithm_manager_api.AlgorithmManagerApi.check_op_quantization_config,
   built on the translated tables and checkers of Gen/. No proofs here. *)
From VF Require Import Base.Prelude Gen.Enums Gen.Configs Gen.Policy
     Gen.Registry Gen.Checks Model.Recipe.

(* default_policy._unroll_json_config *)
Definition unroll_tensor (j : jtcfg) : list tcfg :=
  flat_map (fun s => map (fun g =>
    Mk_tcfg (jt_bits j) s g (jt_dtype j) 0) (jt_gran j)) (jt_sym j).

Definition unroll_json_config (j : jcfg) : list ocfg :=
  let acts := match jc_act j with Some a => unroll_tensor a | None => [] end in
  flat_map (fun w =>
    match acts with
    | [] => [Mk_ocfg None (Some w) (jc_prec j) (jc_expl j) false]
    | _ => map (fun a => Mk_ocfg (Some a) (Some w) (jc_prec j) (jc_expl j) false) acts
    end) (unroll_tensor (jc_wt j)).

(* policy[op] = unrolled + policy[op]  (new configs are prepended; a new key
   is appended to the OrderedDict) *)
Fixpoint policy_prepend (p : policy_t) (o : opname) (cs : list ocfg) : policy_t :=
  match p with
  | [] => [(o, cs)]
  | (k, v) :: r => if opname_eqb k o then (k, cs ++ v) :: r
                   else (k, v) :: policy_prepend r o cs
  end.

Definition update_default_config_policy : policy_t :=
  fold_left (fun pol entry =>
    let '(ci, ops) := entry in
    match nth_opt policy_configs ci with
    | None => pol
    | Some jc =>
        let cs := unroll_json_config jc in
        fold_left (fun pol o => policy_prepend pol o cs) ops pol
    end) policy_ops_per_config [].

(* evaluated once here so that later vm_compute runs see a literal table *)
Definition DEFAULT_CONFIG_CHECK_POLICY : policy_t :=
  Eval vm_compute in update_default_config_policy.

(* ---- AlgorithmManagerApi ---- *)
Definition is_algorithm_registered (a : akey) : bool :=
  match a with
  | AK x => existsb (fun r => algname_eqb (fst (fst r)) x) registrations
  | AKother _ => false
  end.

Definition lookup_registration (x : algname) (o : opname) : option matfunc :=
  (* dict semantics: the last registration for a key wins *)
  fold_left (fun acc r =>
    let '(a, op, m) := r in
    if algname_eqb a x && opname_eqb op o then Some m else acc) registrations None.

Definition is_op_registered (a : akey) (o : opname) : bool :=
  match a with
  | AK x => negb (is_none (lookup_registration x o))
  | AKother _ => false
  end.

Definition policy_of (x : algname) : option (option policy_t) :=
  fold_left (fun acc r =>
    let '(a, k) := r in
    if algname_eqb a x then
      Some (Some (match k with PolDefault => DEFAULT_CONFIG_CHECK_POLICY
                             | PolEmpty => [] end))
    else acc) registered_policies None.

(* check_op_quantization_config (api): Ok tt or ValueError/KeyError *)
Definition api_check (a : akey) (o : opname) (c : ocfg) : res unit :=
  if ocfg_skip_checks c then Ok tt
  else if negb (is_op_registered a o) then Err ValueError
  else match a with
       | AKother _ => Err ValueError
       | AK x =>
           if negb (existsb (algname_eqb x) registered_checkers) then Err ValueError
           else match policy_of x with
                | None => Err KeyError
                | Some pol =>
                    match x with
                    | Alg_MIN_MAX_UNIFORM_QUANT =>
                        minmax_check_op_quantization_config o c pol
                    | Alg_FLOAT_CASTING =>
                        floatcast_check_op_quantization_config o c pol
                    | Alg_NO_QUANTIZE => Err ValueError
                    end
                end
       end.

(* recipe manager only distinguishes "raises ValueError" from "returns" *)
Definition check (a : akey) (o : opname) (c : ocfg) : bool := is_ok (api_check a o c).

Definition J_policy (p : policy_t) : J :=
  Jlist (fun kv => JL [JZ (opname_code (fst kv)); Jlist J_ocfg (snd kv)]) p.
