(* Model/Recipe.v — executable model of recipe_manager.RecipeManager
   (add_quantization_config / load_quantization_recipe /
   get_quantization_configs / get_quantization_recipe / need_calibration)
   and of the to_dict / from_dict layer of qtyping.  No proofs here.

   Strings are interned: a regex is a Z id, a scope name is a Z id, and
   Python's re.search is the parameter [matches].  The config support check
   (algorithm_manager.check_op_quantization_config) is the parameter [check]
   (true = passes, false = raises ValueError); Model/Check.v instantiates it
   from the translated checkers. *)
From VF Require Import Base.Prelude Gen.Enums Gen.Configs.

(* algorithm key: any string; the three registered names or something else *)
Inductive akey := AK (a : algname) | AKother (n : Z).
Definition akey_eqb (a b : akey) : bool :=
  match a, b with
  | AK x, AK y => algname_eqb x y
  | AKother x, AKother y => Z.eqb x y
  | _, _ => false
  end.
Definition is_noquant (a : akey) : bool := akey_eqb a (AK Alg_NO_QUANTIZE).
Definition J_akey (a : akey) : J :=
  match a with AK x => JL [JZ 0; JZ (algname_code x)] | AKother n => JL [JZ 1; JZ n] end.

Record rule := { r_regex : Z; r_op : opname; r_alg : akey; r_cfg : ocfg }.
Definition rule_eqb (a b : rule) : bool :=
  Z.eqb (r_regex a) (r_regex b) && opname_eqb (r_op a) (r_op b)
  && akey_eqb (r_alg a) (r_alg b) && ocfg_eqb (r_cfg a) (r_cfg b).
Definition J_rule (r : rule) : J :=
  JL [JZ (r_regex r); JZ (opname_code (r_op r)); J_akey (r_alg r); J_ocfg (r_cfg r)].

(* OpQuantizationConfig() with all defaults *)
Definition default_ocfg : ocfg := ocfg_default.

(* collections.OrderedDict[str, list[OpQuantizationRecipe]] *)
Definition state := list (Z * list rule).
Definition init : state := [].
Definition J_state (s : state) : J :=
  Jlist (fun kv => JL [JZ (fst kv); Jlist J_rule (snd kv)]) s.

Fixpoint lookup (s : state) (k : Z) : option (list rule) :=
  match s with
  | [] => None
  | (k', v) :: r => if Z.eqb k k' then Some v else lookup r k
  end.

(* d[k] = v on an OrderedDict: keeps the position of an existing key *)
Fixpoint assign (s : state) (k : Z) (v : list rule) : state :=
  match s with
  | [] => [(k, v)]
  | (k', v') :: r => if Z.eqb k k' then (k', v) :: r else (k', v') :: assign r k v
  end.

Section WithCheck.
  Variable check : akey -> opname -> ocfg -> bool.
  Variable matches : Z -> Z -> bool.      (* re.search(regex, scope) is not None *)

  (* the "Reiterate configs" loop of add_quantization_config *)
  Fixpoint replace_op (cfgs : list rule) (r : rule) : list rule * bool :=
    match cfgs with
    | [] => ([], true)
    | e :: rest =>
        let '(rest', is_new) := replace_op rest r in
        if opname_eqb (r_op e) (r_op r) then (r :: rest', false)
        else (e :: rest', is_new)
    end.

  Definition add (s : state) (regex : Z) (op : opname) (cfg : option ocfg)
             (alg : akey) : res state :=
    let c := match cfg with Some c => c | None => default_ocfg end in
    let r := {| r_regex := regex; r_op := op; r_alg := alg; r_cfg := c |} in
    if opname_eqb op Op_ALL_SUPPORTED then Ok (assign s regex [r])
    else if negb (is_noquant alg) && negb (check alg op c) then Err ValueError
    else match lookup s regex with
         | None => Ok (assign s regex [r])
         | Some cfgs =>
             let '(cfgs', is_new) := replace_op cfgs r in
             Ok (assign s regex (if is_new then cfgs' ++ [r] else cfgs'))
         end.

  (* inner loop of get_quantization_configs over one scope's rules *)
  Fixpoint scan_rules (rs : list rule) (target : opname) (acc : akey * ocfg)
    : akey * ocfg :=
    match rs with
    | [] => acc
    | r :: rest =>
        if negb (opname_eqb (r_op r) Op_ALL_SUPPORTED)
           && negb (opname_eqb (r_op r) target)
        then scan_rules rest target acc
        else if negb (is_noquant (r_alg r))
                && negb (check (r_alg r) target (r_cfg r))
        then scan_rules rest target acc
        else scan_rules rest target (r_alg r, r_cfg r)
    end.

  Fixpoint scan_scopes (s : state) (target : opname) (scope : Z)
           (acc : akey * ocfg) : akey * ocfg :=
    match s with
    | [] => acc
    | (regex, rs) :: rest =>
        if matches regex scope
        then scan_scopes rest target scope (scan_rules rs target acc)
        else scan_scopes rest target scope acc
    end.

  Definition get (s : state) (target : opname) (scope : Z) : akey * ocfg :=
    scan_scopes s target scope (AK Alg_NO_QUANTIZE, default_ocfg).

  (* ---------------- serialisation layer ---------------- *)
  (* OpQuantizationConfig.to_dict drops None fields; the tensor-config dicts
     always carry all five fields.  The dict is therefore (abstractly) the
     config with "key absent" for None. *)
  Record jrule := { j_regex : Z; j_op : opname; j_alg : akey; j_dict : option ocfg }.
  (* j_dict = None models a recipe entry without 'op_config' (only legal for
     no_quantize in shipped files; get_quantization_recipe always emits one) *)

  Definition to_dict (c : ocfg) : ocfg := c.

  (* OpQuantizationConfig.from_dict: requires 'weight_tensor_config';
     constructing the dataclass runs __post_init__ (parameter) *)
  Variable post_init : ocfg -> res unit.
  Definition from_dict (d : ocfg) : res ocfg :=
    match ocfg_weight_tensor_config d with
    | None => Err KeyError
    | Some _ => post_init d ;;; Ok d
    end.

  Definition get_recipe (s : state) : list jrule :=
    flat_map (fun kv => map (fun r =>
      {| j_regex := r_regex r; j_op := r_op r; j_alg := r_alg r;
         j_dict := Some (to_dict (r_cfg r)) |}) (snd kv)) s.

  Definition load_one (s : state) (j : jrule) : res state :=
    cfg <- (if is_noquant (j_alg j) then Ok None
            else match j_dict j with
                 | None => Err KeyError
                 | Some d => c <- from_dict d ;; Ok (Some c)
                 end) ;;
    add s (j_regex j) (j_op j) cfg (j_alg j).

  (* load resets first; a failing entry leaves the manager with the rules
     loaded so far (the exception propagates) — [load] returns the error, and
     [load_partial] the state the object is left in. *)
  Definition load (js : list jrule) : res state := foldM load_one js init.

  (* need_calibration: compute_precision == INTEGER and an activation config *)
  Definition need_calibration (s : state) : bool :=
    existsb (fun j => match j_dict j with
                      | Some d => precision_eqb (ocfg_compute_precision d) Prec_INTEGER
                                  && negb (is_none (ocfg_activation_tensor_config d))
                      | None => false end) (get_recipe s).

  (* ---------------- operation sequences (correspondence R) -------------- *)
  Inductive rop :=
  | RAdd (regex : Z) (op : opname) (cfg : option ocfg) (alg : akey)
  | RLoadSelf                       (* load(get_recipe()) into a fresh manager *)
  | RLoadEmpty                      (* load([]) into the SAME (used) manager: resets it *)
  | RGet (op : opname) (scope : Z)
  | RNeedCal.

  (* output of one step *)
  Inductive rout :=
  | OUnit | OErr (e : exn) | OGet (a : akey) (c : ocfg) | OBool (b : bool).

  Definition J_rout (o : rout) : J :=
    match o with
    | OUnit => JL [JZ 0]
    | OErr e => JL [JZ 1; JZ (exn_code e)]
    | OGet a c => JL [JZ 2; J_akey a; J_ocfg c]
    | OBool b => JL [JZ 3; JB b]
    end.

  Definition step (s : state) (o : rop) : state * rout :=
    match o with
    | RAdd regex op cfg alg =>
        match add s regex op cfg alg with
        | Ok s' => (s', OUnit)
        | Err e => (s, OErr e)
        end
    | RLoadSelf =>
        match load (get_recipe s) with
        | Ok s' => (s', OUnit)
        | Err e => (s, OErr e)   (* the harness loads into a fresh manager *)
        end
    | RLoadEmpty =>
        match load [] with
        | Ok s' => (s', OUnit)
        | Err e => (s, OErr e)
        end
    | RGet op scope => let '(a, c) := get s op scope in (s, OGet a c)
    | RNeedCal => (s, OBool (need_calibration s))
    end.

  Fixpoint run (s : state) (ops : list rop) : state * list rout :=
    match ops with
    | [] => (s, [])
    | o :: rest =>
        let '(s', out) := step s o in
        let '(s'', outs) := run s' rest in
        (s'', out :: outs)
    end.
End WithCheck.
