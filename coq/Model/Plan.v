(* Model/Plan.v — executable model of params_generator.ParamsGenerator and of
   the materializers of naive_min_max_quantize / float_casting, with
   quantization parameters as PROVENANCE TERMS (DESIGN §2.4) and the
   statistics dict as an explicit store (the code writes into the caller's
   dict).  BLOCKWISE (emulated sub-channel) is out of scope: OtherError.
   No proofs here. *)
From VF Require Import Base.Prelude Gen.Enums Gen.Configs Gen.Registry Gen.Checks
     Gen.MatDesc Gen.InstChecks Gen.Scopes Model.Recipe Model.Check Model.Graph.

Inductive qdim_t := QdNone | QdDim (d : Z).
Definition qdim_eqb (a b : qdim_t) : bool :=
  match a, b with
  | QdNone, QdNone => true
  | QdDim x, QdDim y => Z.eqb x y | _, _ => false end.
(* min_max_quantize_utils._get_bmm_weight_quantized_dim *)
Definition bmm_qdim (rank : Z) (adj_y : bool) : Z := if adj_y then rank - 2 else rank - 1.

Definition name_t : Type := Z * list Z.
Definition name_eqb2 (a b : name_t) : bool :=
  Z.eqb (fst a) (fst b) && list_eqb Z.eqb (snd a) (snd b).

(* a constant is identified by its data: (buffer id, shape id); two tensors
   viewing one buffer with one shape carry equal data *)
Definition cid_t : Type := Z * Z.
Definition cid_eqb (a b : cid_t) : bool := Z.eqb (fst a) (fst b) && Z.eqb (snd a) (snd b).
Definition J_cid (c : cid_t) : J := JL [JZ (fst c); JZ (snd c)].

(* where a min/max pair comes from *)
Inductive vterm :=
| VStat (n : name_t)                          (* entry of the caller's dict *)
| VConst (c : cid_t) (qd : qdim_t)            (* min/max of constant data, computed on the spot *)
| VFixed (kind bits : Z) (sym : bool).        (* recomputed from a fixed output range *)

Inductive pterm :=
| PMinMax (v : vterm) (bits : Z) (sym : bool) (qd : qdim_t) (data : option cid_t)
| PFixed (kind bits : Z)                      (* kind 0: softmax/logistic, 1: tanh *)
| PBias (pin pw : pterm) (bias : cid_t)
| PF16 (w : cid_t).

Definition J_name (n : name_t) : J := JL [JZ (fst n); Jlist JZ (snd n)].
Definition J_qdim (q : qdim_t) : J :=
  match q with QdNone => JL [] | QdDim d => JL [JZ d] end.
Definition J_vterm (v : vterm) : J :=
  match v with
  | VStat n => JL [JZ 0; J_name n]
  | VConst n q => JL [JZ 1; J_cid n; J_qdim q]
  | VFixed k b s => JL [JZ 2; JZ k; JZ b; JB s]
  end.
Fixpoint J_pterm (p : pterm) : J :=
  match p with
  | PMinMax v b s q d => JL [JZ 0; J_vterm v; JZ b; JB s; J_qdim q; Jopt J_cid d]
  | PFixed k b => JL [JZ 1; JZ k; JZ b]
  | PBias a w c => JL [JZ 2; J_pterm a; J_pterm w; J_cid c]
  | PF16 w => JL [JZ 3; J_cid w]
  end.

(* plan entries with terms *)
Record e2t := { e_op : Z; e_trans : list qtrans; e_params : option pterm }.
Record tplan := { tp_name : name_t; tp_producer : option e2t; tp_consumers : option (list e2t) }.
Definition J_e2t (e : e2t) : J :=
  JL [JZ (e_op e); Jlist (fun t => JZ (qtrans_code t)) (e_trans e); Jopt J_pterm (e_params e)].
Definition J_tplan (t : tplan) : J :=
  JL [J_name (tp_name t); Jopt J_e2t (tp_producer t); Jopt (Jlist J_e2t) (tp_consumers t)].

(* ---- the op as seen by the params generator ---- *)
Record pop := {
  po_id : Z;                     (* subgraph_op_id; -1 for the virtual I/O ops *)
  po_key : option opname;        (* None: builtin code not in TFL_OP_CODE_TO_NAME *)
  po_ins : list Z; po_outs : list Z;
  po_scope : Z;                  (* interned scope string *)
  po_adjy : bool }.              (* BatchMatMulOptions.adjY (false for other ops) *)

Definition opname_of_code (c : Z) : option opname :=
  option_map fst (find (fun p => Z.eqb (snd p) c) TFL_OP_NAME_TO_CODE).

Definition tname (t : tensor) : name_t := (t_root t, t_sfx t).
Definition tcid (t : tensor) : cid_t := (t_buf t, t_shape t).

Section Plan.
  Variable matches : Z -> Z -> bool.
  Variable rules : state.                  (* recipe manager state *)
  Variable bufs : list bufval.

  Definition is_const (t : tensor) : bool :=
    match nthZ bufs (t_buf t) with Some (BOrig _) => true | _ => false end.

  (* statistics store: name -> value term, insertion ordered *)
  Definition store := list (name_t * vterm).
  Fixpoint store_get (s : store) (n : name_t) : option vterm :=
    match s with
    | [] => None
    | (k, v) :: r => if name_eqb2 k n then Some v else store_get r n
    end.
  Fixpoint store_set (s : store) (n : name_t) (v : vterm) : store :=
    match s with
    | [] => [(n, v)]
    | (k, w) :: r => if name_eqb2 k n then (k, v) :: r else (k, w) :: store_set r n v
    end.

  Definition weight_ops : list opname := SUPPORTED_WEIGHT_ONLY_OPS ++ SUPPORTED_DRQ_OPS.
  Definition in_ops (o : opname) (l : list opname) : bool := existsb (opname_eqb o) l.

  Definition qdim_lookup (o : opname) : option Z :=
    option_map snd (find (fun p => opname_eqb (fst p) o) TFL_OP_TO_WEIGHT_QUANTIZED_DIM).

  Definition is_blockwise (c : ocfg) : bool :=
    match ocfg_weight_tensor_config c with
    | Some w => granularity_eqb (tcfg_granularity w) Gr_BLOCKWISE
    | None => false end.

  (* init_tensor_min_max for a constant: quantized dim from the op's WEIGHT config *)
  Definition init_qdim (o : opname) (c : ocfg) (t : tensor) (adjy : bool) : qdim_t :=
    match ocfg_weight_tensor_config c with
    | Some w =>
        if granularity_eqb (tcfg_granularity w) Gr_CHANNELWISE then
          if opname_eqb o Op_BATCH_MATMUL then QdDim (bmm_qdim (t_rank t) adjy)
          else match qdim_lookup o with Some d => QdDim d | None => QdNone end
        else QdNone
    | None => QdNone
    end.

  (* _get_tensor_quant_params: quantized dimension from the TENSOR config *)
  Definition param_qdim (o : opname) (tc : tcfg) (t : tensor) (const adjy : bool) : res qdim_t :=
    if granularity_eqb (tcfg_granularity tc) Gr_CHANNELWISE then
      if opname_eqb o Op_BATCH_MATMUL then
        (* len(tensor_content.shape): AttributeError when the tensor is not constant *)
        if const then Ok (QdDim (bmm_qdim (t_rank t) adjy)) else Err AttributeError
      else match qdim_lookup o with Some d => Ok (QdDim d) | None => Err KeyError end
    else Ok QdNone.

  (* get_tensor_transformation_params *)
  Definition mk_entry (opid : Z) (c : ocfg) (inbound const : bool) (p : option pterm)
    : res e2t :=
    tr <- get_tensor_transformations c inbound const ;;
    Ok {| e_op := opid; e_trans := tr; e_params := p |}.

  Definition entry_plan (t : tensor) (inbound : bool) (e : e2t) : tplan :=
    if inbound then {| tp_name := tname t; tp_producer := None; tp_consumers := Some [e] |}
    else {| tp_name := tname t; tp_producer := Some e; tp_consumers := None |}.

  (* _get_tensor_transformation_params_wrapper *)
  Definition wrapper (s : store) (o : opname) (opid : Z) (adjy : bool) (c : ocfg) (t : tensor)
             (inbound : bool) (qp : option pterm) : res tplan :=
    let const := is_const t in
    let tc := if const && in_ops o weight_ops then ocfg_weight_tensor_config c
              else ocfg_activation_tensor_config c in
    p <- match qp, tc with
         | None, Some tc =>
             if is_blockwise c && const then Err OtherError else
             v <- match store_get s (tname t) with
                  | Some v => Ok v
                  | None => if const then Ok (VConst (tcid t) (init_qdim o c t adjy))
                            else Err ValueError        (* missing statistics *)
                  end ;;
             qd <- param_qdim o tc t const adjy ;;
             Ok (Some (PMinMax v (tcfg_num_bits tc) (tcfg_symmetric tc) qd
                               (if const then Some (tcid t) else None)))
         | _, _ => Ok qp
         end ;;
    e <- mk_entry opid c inbound const p ;;
    Ok (entry_plan t inbound e).

  Definition noquant_entry (opid : Z) : e2t :=
    {| e_op := opid; e_trans := [Tr_NO_QUANTIZE]; e_params := None |}.

  (* tensors of an op: (position among all operands, tensor id), -1 kept *)
  Definition get_t (ts : list tensor) (i : Z) : res tensor := py_index ts i.

  Inductive constraint := NoConstrain | SameAsInput | SameAsOutput.

  Definition first_param (p : tplan) (inbound : bool) : res (option pterm) :=
    if inbound then match tp_consumers p with
                    | Some (e :: _) => Ok (e_params e)
                    | Some [] => Err IndexError
                    | None => Err TypeError end
    else match tp_producer p with Some e => Ok (e_params e) | None => Ok None end.

  (* non-fp32 operands join the ignore lists; python looks the tensor up
     with the raw index, so an absent operand (-1) reads the LAST tensor;
     it is dropped again right after, hence harmless *)
  Definition keep_flags (ts : list tensor) (ids ign : list Z) : res (list bool) :=
    mapM (fun it => let '(i, x) := it in
            t <- get_t ts x ;;
            Ok (Z.eqb (t_ty t) TY_FLOAT32 && negb (memZ i ign))) (enumerate ids).
  Definition present (ids : list Z) (k : list bool) : list (Z * bool) :=
    filter (fun p => negb (Z.eqb (fst p) (-1))) (combine ids k).
  Definition kept (l : list (Z * bool)) : list Z := map fst (filter snd l).

  (* merge the materialized plans with the ignored operands, keeping operand order *)
  Fixpoint merge_plans (ts : list tensor) (opid : Z) (inbound : bool)
           (l : list (Z * bool)) (ps : list tplan) : res (list tplan) :=
    match l with
    | [] => Ok []
    | (x, true) :: r =>
        match ps with
        | p :: ps' => rest <- merge_plans ts opid inbound r ps' ;; Ok (p :: rest)
        | [] => Err IndexError
        end
    | (x, false) :: r =>
        t <- get_t ts x ;;
        rest <- merge_plans ts opid inbound r ps ;;
        Ok (entry_plan t inbound (noquant_entry opid) :: rest)
    end.

  (* the part of materialize_standard_op that looks at the kept operands *)
  Definition standard_core (s : store) (ts : list tensor) (o : opname) (op : pop) (c : ocfg)
             (cons : constraint) (act_in act_out : list Z)
    : res (list tplan * list tplan * store) :=
    let W (s : store) x inbound qp := t <- get_t ts x ;; wrapper s o (po_id op) (po_adjy op) c t inbound qp in
    match act_in, act_out, cons with
    | [], [], _ => Ok ([], [], s)
    | _, _, SameAsInput =>
        match act_in with
        | [x] =>
            pi <- W s x true None ;;
            qp <- first_param pi true ;;
            po <- mapM (fun y => W s y false qp) act_out ;;
            (* output statistics := input statistics (KeyError if absent) *)
            ti <- get_t ts x ;;
            v <- match store_get s (tname ti) with Some v => Ok v | None => Err KeyError end ;;
            s' <- foldM (fun s y => ty <- get_t ts y ;; Ok (store_set s (tname ty) v))
                        act_out s ;;
            Ok ([pi], po, s')
        | _ => Err ValueError
        end
    | _, _, SameAsOutput =>
        match act_out with
        | [y] =>
            po <- W s y false None ;;
            qp <- first_param po false ;;
            pi <- mapM (fun x => W s x true qp) act_in ;;
            Ok (pi, [po], s)
        | _ => Err ValueError
        end
    | _, _, NoConstrain =>
        pi <- mapM (fun x => W s x true None) act_in ;;
        po <- mapM (fun y => W s y false None) act_out ;;
        Ok (pi, po, s)
    end.

  (* materialize_standard_op: returns plans in operand order (without the
     absent -1 operands) followed by the results, and the new store *)
  Definition standard_op (s : store) (ts : list tensor) (o : opname) (op : pop) (c : ocfg)
             (cons : constraint) (ign_in ign_out : list Z) : res (list tplan * store) :=
    kin <- keep_flags ts (po_ins op) ign_in ;;
    kout <- keep_flags ts (po_outs op) ign_out ;;
    let pin := present (po_ins op) kin in
    let pout := present (po_outs op) kout in
    r <- standard_core s ts o op c cons (kept pin) (kept pout) ;;
    let '(pi, po, s') := r in
    mi <- merge_plans ts (po_id op) true pin pi ;;
    mo <- merge_plans ts (po_id op) false pout po ;;
    Ok (mi ++ mo, s').

  (* replace the k-th element; IndexError when out of range (list assignment) *)
  Definition list_assign {A} (l : list A) (k : Z) (a : A) : res (list A) :=
    _ <- py_index l k ;;
    Ok (set_nth l (Z.to_nat (if k <? 0 then k + lenZ l else k)) a).

  Definition is_srq (c : ocfg) : bool :=
    precision_eqb (ocfg_compute_precision c) Prec_INTEGER
    && negb (is_none (ocfg_activation_tensor_config c)).

  (* _materialize_bias_for_conv_ops *)
  Definition bias_step (ts : list tensor) (op : pop) (c : ocfg) (ps : list tplan)
             (ii wi bi : Z) : res (list tplan) :=
    _ <- py_index (po_ins op) ii ;; _ <- py_index (po_ins op) wi ;;
    _ <- py_index (po_outs op) 0 ;;
    let has_bias := (bi <? lenZ (po_ins op)) &&
                    match nthZ (po_ins op) bi with Some x => negb (Z.eqb x (-1)) | None => false end in
    if negb has_bias then Ok ps else
    bx <- py_index (po_ins op) bi ;;
    bt <- get_t ts bx ;;
    qp <- (if is_srq c then
             pin <- py_index ps ii ;; pw <- py_index ps wi ;;
             a <- first_param pin true ;; w <- first_param pw true ;;
             a' <- unopt a ;; w' <- unopt w ;;      (* None.scale: AttributeError *)
             if negb (is_const bt) then Err AttributeError (* None content *)
             else Ok (Some (PBias a' w' (tcid bt)))
           else Ok None) ;;
    e <- mk_entry (po_id op) c true (is_srq c) qp ;;
    list_assign ps bi (entry_plan bt true e).

  (* materialize_op_with_output_activation_constraint *)
  Definition fixed_output (s : store) (ts : list tensor) (o : opname) (op : pop) (c : ocfg)
             (kind : Z) : res (list tplan * store) :=
    if negb (Z.eqb (lenZ (po_outs op)) 1) then Err ValueError else
    r <- standard_op s ts o op c NoConstrain [] [] ;;
    let '(ps, s1) := r in
    match rev ps with
    | [] => Err IndexError
    | lastp :: front =>
        match ocfg_activation_tensor_config c, tp_producer lastp with
        | Some a, Some e =>
            let bits := tcfg_num_bits a in
            if negb (Z.eqb bits 8 || Z.eqb bits 16) then Err ValueError else
            let e' := {| e_op := e_op e; e_trans := e_trans e;
                         e_params := Some (PFixed kind bits) |} in
            let lastp' := {| tp_name := tp_name lastp; tp_producer := Some e';
                             tp_consumers := tp_consumers lastp |} in
            (* tensor_name_to_qsv[name]["min"/"max"] = ... : KeyError if absent *)
            match store_get s1 (tp_name lastp) with
            | None => Err KeyError
            | Some _ =>
                Ok (rev front ++ [lastp'],
                    store_set s1 (tp_name lastp) (VFixed kind bits (tcfg_symmetric a)))
            end
        | _, _ => Ok (ps, s1)
        end
    end.

  (* float_casting.materialize_fc_conv / conv2d_transpose *)
  Definition fc_cast (ts : list tensor) (op : pop) (ii wi bi : Z) : res (list tplan) :=
    ix <- py_index (po_ins op) ii ;; it <- get_t ts ix ;;
    wx <- py_index (po_ins op) wi ;; wt <- get_t ts wx ;;
    ox <- py_index (po_outs op) 0 ;; ot <- get_t ts ox ;;
    let has_bias := (bi <? lenZ (po_ins op)) &&
                    match nthZ (po_ins op) bi with Some x => negb (Z.eqb x (-1)) | None => false end in
    if negb (is_const wt) then Err AttributeError else
    let nq t inbound := entry_plan t inbound (noquant_entry (po_id op)) in
    let w := {| tp_name := tname wt; tp_producer := None;
                tp_consumers := Some [{| e_op := po_id op; e_trans := [Tr_ADD_DEQUANTIZE];
                                         e_params := Some (PF16 (tcid wt)) |}] |} in
    b <- (if has_bias then bx <- py_index (po_ins op) bi ;; bt <- get_t ts bx ;; Ok [nq bt true]
          else Ok []) ;;
    Ok ([nq it true; w; nq ot false] ++ b).

  (* dispatch on the registered materialize function: descriptors are
     regenerated from the wrapper bodies (Gen/MatDesc.v) *)
  Definition cons_of (z : Z) : constraint :=
    if Z.eqb z 1 then SameAsInput else if Z.eqb z 2 then SameAsOutput else NoConstrain.

  Definition materialize (s : store) (ts : list tensor) (a : algname) (o : opname)
             (op : pop) (c : ocfg) : res (list tplan * store) :=
    match lookup_registration a o with
    | None => Err ValueError
    | Some f =>
        match mat_desc_of f with
        | MStd k ii io => standard_op s ts o op c (cons_of k) ii io
        | MFcConv ii wi bi =>
            r <- standard_op s ts o op c NoConstrain [bi] [] ;;
            ps <- bias_step ts op c (fst r) ii wi bi ;;
            Ok (ps, snd r)
        | MConvT si wi ii bi minp =>
            r <- standard_op s ts o op c NoConstrain [si; bi] [] ;;
            if lenZ (fst r) <? minp then Err ValueError else
            ps <- bias_step ts op c (fst r) ii wi bi ;;
            Ok (ps, snd r)
        | MFixed kind => fixed_output s ts o op c kind
        | MCast ii wi bi => ps <- fc_cast ts op ii wi bi ;; Ok (ps, s)
        end
    end.

  (* _get_params_for_no_quant_op *)
  Definition noquant_op (ts : list tensor) (op : pop) : res (list tplan) :=
    pi <- mapM (fun x => t <- get_t ts x ;; Ok (entry_plan t true (noquant_entry (po_id op))))
               (filter (fun x => negb (Z.eqb x (-1))) (po_ins op)) ;;
    po <- mapM (fun x => t <- get_t ts x ;; Ok (entry_plan t false (noquant_entry (po_id op))))
               (filter (fun x => negb (Z.eqb x (-1))) (po_outs op)) ;;
    Ok (pi ++ po).

  (* _update_model_quant_results: dict keyed by tensor name, insertion ordered *)
  Definition results := list tplan.
  Fixpoint merge_result (rs : results) (p : tplan) : res results :=
    match rs with
    | [] => Ok [p]
    | r :: rest =>
        if name_eqb2 (tp_name r) (tp_name p) then
          prod <- match tp_producer p, tp_producer r with
                  | Some _, Some _ => Err RuntimeError
                  | Some e, None => Ok (Some e)
                  | None, x => Ok x
                  end ;;
          let cons := match tp_consumers p, tp_consumers r with
                      | Some l, Some l0 => Some (l0 ++ l)
                      | Some l, None => Some l
                      | None, x => x
                      end in
          Ok ({| tp_name := tp_name r; tp_producer := prod; tp_consumers := cons |} :: rest)
        else rest' <- merge_result rest p ;; Ok (r :: rest')
    end.

  Definition algname_of (a : akey) : res algname :=
    match a with AK x => Ok x | AKother _ => Err ValueError end.

  Definition plan_op (st : results * store) (ts : list tensor) (op : pop)
    : res (results * store) :=
    let '(rs, s) := st in
    r <- match po_key op with
         | None => ps <- noquant_op ts op ;; Ok (ps, s)
         | Some o =>
             let '(alg, c) := get check matches rules o (po_scope op) in
             if is_noquant alg then ps <- noquant_op ts op ;; Ok (ps, s)
             else a <- algname_of alg ;; materialize s ts a o op c
         end ;;
    rs' <- foldM merge_result (fst r) rs ;;
    Ok (rs', snd r).

  Definition pops_of (scope_id : list stok -> Z) (opcodes : list Z) (g : subgraph)
           (adjy : list bool) : list pop :=
    let real := map (fun io => let '(i, o) := io in
                  {| po_id := i;
                     po_key := match nthZ opcodes (o_code o) with
                               | Some c => opname_of_code c | None => None end;
                     po_ins := o_ins o; po_outs := o_outs o; po_scope := 0; po_adjy := false |})
                  (enumerate (sg_ops g)) in
    let io := [{| po_id := -1; po_key := Some Op_INPUT; po_ins := [];
                  po_outs := sg_inputs g; po_scope := 0; po_adjy := false |};
               {| po_id := -1; po_key := Some Op_OUTPUT; po_ins := sg_outputs g;
                  po_outs := []; po_scope := 0; po_adjy := false |}] in
    (* the scope is built by the translated ParamsGenerator._get_op_scope and
       interned by [scope_id]; adjY flags of the real ops come with the model *)
    map (fun ps => let '(p, a) := ps in
           {| po_id := po_id p; po_key := po_key p; po_ins := po_ins p;
              po_outs := po_outs p;
              po_scope := scope_id (scope_params_generator (po_outs p));
              po_adjy := a |})
        (combine (real ++ io) (adjy ++ [false; false])).

  (* ---- buffer sharing check (after the fix: constant buffers only) ---- *)
  Fixpoint pterm_eqb (a b : pterm) : bool :=
    match a, b with
    | PMinMax v b1 s q d, PMinMax v' b1' s' q' d' =>
        (match v, v' with
         | VStat n, VStat n' => name_eqb2 n n'
         | VConst n q0, VConst n' q0' => cid_eqb n n' && qdim_eqb q0 q0'
         | VFixed k x y, VFixed k' x' y' => Z.eqb k k' && Z.eqb x x' && Bool.eqb y y'
         | _, _ => false end)
        && Z.eqb b1 b1' && Bool.eqb s s' && qdim_eqb q q' && opt_eqb cid_eqb d d'
    | PFixed k x, PFixed k' x' => Z.eqb k k' && Z.eqb x x'
    | PBias p w c, PBias p' w' c' => pterm_eqb p p' && pterm_eqb w w' && cid_eqb c c'
    | PF16 w, PF16 w' => cid_eqb w w'
    | _, _ => false
    end.

  (* ---- from terms to the parameter view of Insts/Perform ---- *)
  Fixpoint term_bits (p : pterm) : Z :=
    match p with
    | PMinMax _ b _ _ _ => b
    | PFixed _ b => b
    | PBias a _ _ => if Z.eqb (term_bits a) 16 then 64 else 32
    | PF16 _ => 16
    end.
  Definition term_uniform (p : pterm) : bool := match p with PF16 _ => false | _ => true end.
  Definition term_has_data (p : pterm) : bool :=
    match p with
    | PMinMax _ _ _ _ d => negb (is_none d)
    | PFixed _ _ => false | PBias _ _ _ => true | PF16 _ => true end.

  (* equality classes of parameter values: syntactic equality of terms (the
     harness checks on every case that it coincides with Python's == on the
     evaluated parameters wherever the code compares them) *)
  Definition terms_of (rs : list tplan) : list pterm :=
    flat_map (fun t =>
      (match tp_producer t with Some e => match e_params e with Some p => [p] | None => [] end
                              | None => [] end) ++
      flat_map (fun e => match e_params e with Some p => [p] | None => [] end)
               (match tp_consumers t with Some l => l | None => [] end)) rs.
  Definition term_class (all : list pterm) (p : pterm) : Z :=
    match find_index (pterm_eqb p) all with Some i => Z.of_nat i | None => -1 end.

  Variable classify : pterm -> Z.

  Definition to_qparam (p : pterm) : qparam :=
    {| qp_id := classify p; qp_uniform := term_uniform p; qp_bits := term_bits p;
       qp_has_data := term_has_data p |}.
  Definition to_o2t (e : e2t) : o2t :=
    {| o2t_op := e_op e; o2t_trans := e_trans e; o2t_params := option_map to_qparam (e_params e) |}.
  Definition to_ttp (t : tplan) : ttp :=
    {| ttp_name := tp_name t; ttp_producer := option_map to_o2t (tp_producer t);
       ttp_consumers := option_map (map to_o2t) (tp_consumers t) |}.

  (* _compatible_tensor_transformation_params *)
  Definition o2t_opt_eqb (a b : option o2t) : bool :=
    match a, b with None, None => true | _, _ => false end.

  Definition compatible_ttp (p1 p2 : ttp) : res bool :=
    c1 <- match ttp_producer p1, ttp_producer p2 with
          | Some a, Some b => _compatible_tensor_params a b
          | a, b => Ok (o2t_opt_eqb a b)
          end ;;
    if negb c1 then Ok false else
    match ttp_consumers p1, ttp_consumers p2 with
    | Some l1, Some l2 =>
        h1 <- py_index l1 0 ;;
        a1 <- mapM (fun c => _compatible_tensor_params c h1) l1 ;;
        if negb (forallb id a1) then Ok false else
        h2 <- py_index l2 0 ;;
        a2 <- mapM (fun c => _compatible_tensor_params c h2) l2 ;;
        if negb (forallb id a2) then Ok false else
        _compatible_tensor_params h1 h2
    | None, None => Ok true
    | _, _ => Ok false
    end.

  (* tfl_flatbuffer_utils.buffer_to_tensors (real ops only; results first) *)
  Definition buffer_groups (m : model) : list (Z * list name_t) :=
    fold_left (fun acc g =>
      fold_left (fun acc o =>
        fold_left (fun acc x =>
          if Z.eqb x (-1) then acc else
          match nthZ (sg_tensors g) x with
          | None => acc
          | Some t =>
              (fix ins (l : list (Z * list name_t)) :=
                 match l with
                 | [] => [(t_buf t, [tname t])]
                 | (b, ns) :: r => if Z.eqb b (t_buf t) then (b, ns ++ [tname t]) :: r
                                   else (b, ns) :: ins r
                 end) acc
          end) (o_outs o ++ o_ins o) acc) (sg_ops g) acc) (m_subgraphs m) [].

  Definition find_plan (rs : results) (n : name_t) : res tplan :=
    match find (fun r => name_eqb2 (tp_name r) n) rs with
    | Some r => Ok r | None => Err KeyError end.

  Definition check_buffer_sharing_with (m : model) (rs : results) : res unit :=
    foldM (fun _ grp =>
      let '(b, ns) := grp in
      match ns with
      | first :: (_ :: _) as rest =>
          match nthZ bufs b with
          | Some (BOrig _) =>
              p1 <- find_plan rs first ;;
              foldM (fun _ n =>
                p2 <- find_plan rs n ;;
                ok <- compatible_ttp (to_ttp p1) (to_ttp p2) ;;
                if ok then Ok tt else Err RuntimeError) rest tt
          | _ => Ok tt
          end
      | _ => Ok tt
      end) (buffer_groups m) tt.

  (* generate_quantization_parameters *)
  Variable scope_id : Z -> list stok -> Z.      (* subgraph index, scope tokens -> interned scope string *)
  Definition plan (m : model) (scopes : list (list bool)) (stats : option (list name_t))
    : res (results * store) :=
    let empty := match stats with None => true | Some _ => false end in   (* `model_qsvs is None` *)
    if need_calibration rules && empty then Err RuntimeError else
    let s0 : store := match stats with
                      | Some ns => map (fun n => (n, VStat n)) ns | None => [] end in
    r <- foldM (fun st gs =>
           let '(gi, (g, sc)) := gs in
           foldM (fun st op => plan_op st (sg_tensors g) op)
                 (pops_of (scope_id gi) (m_opcodes m) g sc) st)
         (enumerate (combine (m_subgraphs m) scopes)) ([], s0) ;;
    Ok r.
End Plan.

(* full generate_quantization_parameters incl. the post-processing check.
   [mk_cls all p] = equality class of the parameters denoted by term p among
   the terms [all] of this plan: syntactic equality of terms (term_class) or a
   table of VALUE-equality classes computed by the harness with Python's ==
   (table_class), which is what the code compares. *)
Definition table_class (table : list Z) (all : list pterm) (p : pterm) : Z :=
  match find_index (pterm_eqb p) all with
  | Some i => nth i table (-1)
  | None => -1
  end.

(* ParamsGenerator.__init__: _check_tensor_names_are_unique — tensor names must
   be unique over the WHOLE model (all subgraphs), ValueError otherwise *)
Definition all_names (m : model) : list name_t :=
  flat_map (fun g => map tname (sg_tensors g)) (m_subgraphs m).
Fixpoint names_nodupb (l : list name_t) : bool :=
  match l with
  | [] => true
  | x :: r => negb (existsb (name_eqb2 x) r) && names_nodupb r
  end.

Definition plan_checked_cls (mk_cls : list pterm -> pterm -> Z)
           (matches : Z -> Z -> bool) (rules : state)
           (scope_id : Z -> list stok -> Z) (m : model)
           (scopes : list (list bool)) (stats : option (list name_t))
  : res (list tplan * list (name_t * vterm)) :=
  if negb (names_nodupb (all_names m)) then Err ValueError else
  r <- plan matches rules (m_buffers m) scope_id m scopes stats ;;
  check_buffer_sharing_with (m_buffers m) (mk_cls (terms_of (fst r))) m (fst r) ;;;
  Ok r.

Definition plan_checked := plan_checked_cls term_class.
