(* Model/Insts.v — executable model of
   transformation_instruction_generator.TransformationInstructionsGenerator.
   The four check_* predicates are the translated ones (Gen/InstChecks.v).
   Python sets of small ints iterate in ascending order; consumer indices are
   added in ascending order, so a group is modelled as an ascending list.
   No proofs here. *)
From VF Require Import Base.Prelude Gen.Enums Model.Graph Gen.InstChecks.

(* ---- TensorGraphInfo ---- *)
Record tinfo := { gi_tensor : Z; gi_sg : Z; gi_producer : Z; gi_consumers : list Z }.

Definition op_reads (o : op) (t : Z) : bool := memZ t (o_ins o).
Definition op_writes (o : op) (t : Z) : bool := memZ t (o_outs o).

Definition consumers_of (g : subgraph) (t : Z) : list Z :=
  map fst (filter (fun p => op_reads (snd p) t) (enumerate (sg_ops g))).

Definition producer_of (g : subgraph) (t : Z) : Z :=
  match find (fun p => op_writes (snd p) t) (enumerate (sg_ops g)) with
  | Some p => fst p
  | None => -1
  end.

Definition tensor_info (sgid : Z) (g : subgraph) (t : Z) : tinfo :=
  let cs := consumers_of g t in
  {| gi_tensor := t; gi_sg := sgid; gi_producer := producer_of g t;
     gi_consumers := if memZ t (sg_outputs g) then -1 :: cs else cs |}.

(* name -> info map; later entries for an equal name overwrite earlier ones *)
Definition name_key (t : tensor) : Z * list Z := (t_root t, t_sfx t).
Definition key_eqb (a b : Z * list Z) : bool :=
  Z.eqb (fst a) (fst b) && list_eqb Z.eqb (snd a) (snd b).

Definition info_map (m : model) : list ((Z * list Z) * tinfo) :=
  flat_map (fun sg => let '(sgid, g) := sg in
    map (fun it => let '(tid, t) := it in (name_key t, tensor_info sgid g tid))
        (enumerate (sg_tensors g))) (enumerate (m_subgraphs m)).

Definition lookup_info (im : list ((Z * list Z) * tinfo)) (k : Z * list Z)
  : res tinfo :=
  match find (fun e => key_eqb (fst e) k) (rev im) with
  | Some e => Ok (snd e)
  | None => Err KeyError
  end.

(* ---- _group_consumer_transformations ---- *)
Definition longest_chain (cs : list o2t) : nat :=
  fold_left (fun acc c => Nat.max acc (length (o2t_trans c))) cs 0%nat.

(* try to put consumer ci (in current group cur) into one of the new groups *)
Fixpoint assign_group (cs : list o2t) (cur : list Z) (ci : Z) (c : o2t)
         (depth : Z) (next : list (list Z)) : res (list (list Z)) :=
  match next with
  | [] => Ok [[ci]]
  | ng :: rest =>
      match ng with
      | [] => Err IndexError        (* next(iter(empty)) cannot happen *)
      | idx :: _ =>
          hit <- (if memZ idx cur
                  then ( ic <- py_index cs idx ;;
                         check_horizontal_optimization ic c depth )
                  else Ok false) ;;
          if hit then Ok ((ng ++ [ci]) :: rest)
          else rest' <- assign_group cs cur ci c depth rest ;; Ok (ng :: rest')
      end
  end.

Definition group_depth (cs : list o2t) (groups : list (list Z)) (depth : Z)
  : res (list (list Z)) :=
  foldM (fun next ic =>
    let '(ci, c) := ic in
    if Z.of_nat (length (o2t_trans c)) >? depth then
      foldM (fun next cur =>
        if memZ ci cur then assign_group cs cur ci c depth next else Ok next)
        groups next
    else Ok next) (enumerate cs) [].

Fixpoint group_all (cs : list o2t) (groups : list (list Z)) (depth : Z) (fuel : nat)
  : res (list (list (list Z))) :=
  match fuel with
  | O => Ok []
  | S f => next <- group_depth cs groups depth ;;
           rest <- group_all cs next (depth + 1) f ;;
           Ok (next :: rest)
  end.

Definition group_consumer_transformations (p : ttp) : res (list (list (list Z))) :=
  match ttp_consumers p with
  | None => Ok []
  | Some [] => Ok []
  | Some cs =>
      let g0 := map fst (enumerate cs) in
      rest <- group_all cs [g0] 0 (longest_chain cs) ;;
      Ok ([g0] :: rest)
  end.

Definition consumers_list (p : ttp) : list o2t :=
  match ttp_consumers p with Some cs => cs | None => [] end.

(* instruction for one group at chain position [pos] *)
Definition group_inst (cs : list o2t) (info : tinfo) (group : list Z) (pos : Z)
  : res inst :=
  match group with
  | [] => Err IndexError
  | g0 :: _ =>
      c0 <- py_index cs g0 ;;
      tr <- py_index (o2t_trans c0) pos ;;
      ops <- mapM (fun i => c <- py_index cs i ;; Ok (o2t_op c)) group ;;
      Ok {| i_trans := tr; i_tensor := gi_tensor info; i_producer := gi_producer info;
            i_consumers := ops; i_params := o2t_params c0 |}
  end.

Definition vertical_candidates (groups : list (list (list Z))) (p : ttp) (info : tinfo)
  : res (list inst) :=
  match groups with
  | _ :: g1 :: _ => mapM (fun g => group_inst (consumers_list p) info g 0) g1
  | _ => Ok []
  end.

Definition other_consumer_insts (groups : list (list (list Z))) (p : ttp) (info : tinfo)
  : res (list inst) :=
  let cs := consumers_list p in
  r <- mapM (fun ig =>
    let '(idx, gs) := ig in
    if idx <? 2 then Ok []
    else r <- mapM (fun g =>
           match g with
           | [] => Err IndexError
           | g0 :: _ =>
               c0 <- py_index cs g0 ;;
               if Z.of_nat (length (o2t_trans c0)) <=? idx - 1 then Ok []
               else i <- group_inst cs info g (idx - 1) ;; Ok [i]
           end) gs ;; Ok (concat r)) (enumerate groups) ;;
  Ok (concat r).

(* list.remove(x): first occurrence; ValueError if absent *)
Fixpoint remove_first (x : Z) (l : list Z) : res (list Z) :=
  match l with
  | [] => Err ValueError
  | y :: r => if Z.eqb x y then Ok r else r' <- remove_first x r ;; Ok (y :: r')
  end.

Definition remove_if_present (l : list Z) (xs : list Z) : list Z :=
  fold_left (fun l x => if memZ x l
                        then match remove_first x l with Ok l' => l' | Err _ => l end
                        else l) xs l.

Definition with_consumers (i : inst) (cs : list Z) : inst :=
  {| i_trans := i_trans i; i_tensor := i_tensor i; i_producer := i_producer i;
     i_consumers := cs; i_params := i_params i |}.

Definition mk_like (r : inst) (t : qtrans) (ps : option qparam) : inst :=
  {| i_trans := t; i_tensor := i_tensor r; i_producer := i_producer r;
     i_consumers := i_consumers r; i_params := ps |}.

(* _apply_vertical_optimization; the producer rule's consumer list is
   threaded through the loop (it is mutated in place by the code) *)
Definition apply_vertical (prod : inst) (rules : list inst) : res (list inst) :=
  r <- foldM (fun st rule =>
    let '(pcs, acc) := st in
    let prod' := with_consumers prod pcs in
    e1 <- check_dq_q_elimination prod' rule ;;
    if e1 then
      Ok (remove_if_present pcs (i_consumers rule),
          acc ++ [mk_like rule Tr_QUANTIZE_TENSOR (i_params rule)])
    else
      e2 <- check_replace_dq_q_with_rq prod' rule ;;
      if e2 then
        Ok (remove_if_present pcs (i_consumers rule),
            acc ++ [mk_like rule Tr_QUANTIZE_TENSOR (i_params prod);
                           mk_like rule Tr_ADD_QUANTIZE (i_params rule)])
      else
        e3 <- check_dq_no_quant_elimination prod' rule ;;
        if e3 then
          Ok (remove_if_present pcs (i_consumers rule),
              acc ++ [mk_like rule Tr_ADD_DEQUANTIZE (i_params prod)])
        else Ok (pcs, acc ++ [rule]))
    rules (i_consumers prod, []) ;;
  let '(pcs, acc) := r in
  Ok (match pcs with [] => acc | _ => with_consumers prod pcs :: acc end).

(* _check_tensor_transformation_instructions_valid *)
Definition insts_valid (is : list inst) : res unit :=
  let unq := existsb (fun i => qtrans_eqb (i_trans i) Tr_NO_QUANTIZE) is in
  let q := existsb (fun i => qtrans_eqb (i_trans i) Tr_QUANTIZE_TENSOR
                             || qtrans_eqb (i_trans i) Tr_ADD_DEQUANTIZE) is in
  let emu := existsb (fun i => qtrans_eqb (i_trans i) Tr_EMULATED_SUBCHANNEL) is in
  if unq && q then Err ValueError
  else if emu && (1 <? lenZ is) then Err ValueError
  else Ok tt.

Fixpoint but_last {A} (l : list A) : list A :=
  match l with [] => [] | [_] => [] | x :: r => x :: but_last r end.

Definition quant_params_to_insts (im : list ((Z * list Z) * tinfo)) (p : ttp)
  : res tinsts :=
  info <- lookup_info im (ttp_name p) ;;
  groups <- group_consumer_transformations p ;;
  vert <- vertical_candidates groups p info ;;
  others <- other_consumer_insts groups p info ;;
  let prods := match ttp_producer p with
               | None => []
               | Some pp => map (fun t =>
                   {| i_trans := t; i_tensor := gi_tensor info;
                      i_producer := gi_producer info;
                      i_consumers := gi_consumers info;
                      i_params := o2t_params pp |}) (o2t_trans pp)
               end in
  body <- match last (map Some prods) None with
          | Some lastp => v <- apply_vertical lastp vert ;; Ok (but_last prods ++ v)
          | None => Ok (prods ++ vert)
          end ;;
  let all := body ++ others in
  insts_valid all ;;;
  Ok {| ti_name := ttp_name p; ti_sg := gi_sg info; ti_insts := all |}.

(* params dict (in key order) -> instruction dict *)
Definition insts_of_params (m : model) (ps : list ttp) : res (list tinsts) :=
  let im := info_map m in
  mapM (quant_params_to_insts im) ps.
