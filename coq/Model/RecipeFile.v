(* Model/RecipeFile.v — loading a recipe FILE (list of JSON dicts as found on
   disk, Gen/Recipes.v) through OpQuantizationConfig.from_dict and
   RecipeManager.load_quantization_recipe.  No proofs here. *)
From VF Require Import Base.Prelude Gen.Enums Gen.Configs Gen.Recipes Model.Recipe.

Section WithCheck.
  Variable check : akey -> opname -> ocfg -> bool.
  Variable post_init : ocfg -> res unit.

  (* TensorQuantizationConfig.from_dict passes the dict as keywords: unknown or missing
     keyword -> TypeError *)
  Definition raw_tcfg_load (r : raw_tcfg) : res tcfg :=
    if rt_unknown_keys r || rt_missing_bits r then Err TypeError else Ok (rt_cfg r).

  Definition akey_of_code (z : Z) : akey :=
    match algname_of_code z with Some a => AK a | None => AKother 0 end.

  Definition raw_cfg (e : raw_entry) : res ocfg :=
    if negb (re_has_op_config e) then Err KeyError
    else match re_wt e with
         | None => Err KeyError
         | Some w =>
             w' <- raw_tcfg_load w ;;
             a' <- match re_act e with
                   | None => Ok None
                   | Some a => a'' <- raw_tcfg_load a ;; Ok (Some a'')
                   end ;;
             if re_unknown_keys e then Err TypeError
             else let c := Mk_ocfg a' (Some w') (re_prec e) (re_expl e) (re_skip e) in
                  post_init c ;;; Ok c
         end.

  Definition load_raw_one (s : state) (e : raw_entry) : res state :=
    let alg := akey_of_code (re_alg e) in
    cfg <- (if is_noquant alg then Ok None else c <- raw_cfg e ;; Ok (Some c)) ;;
    add check s (re_regex e) (re_op e) cfg alg.

  Definition load_raw (es : list raw_entry) : res state := foldM load_raw_one es init.

  (* a raw entry that is already in exported (to_dict) form *)
  Definition raw_is_export_of (e : raw_entry) (j : jrule) : bool :=
    Z.eqb (re_regex e) (j_regex j) && opname_eqb (re_op e) (j_op j)
    && akey_eqb (akey_of_code (re_alg e)) (j_alg j)
    && match j_dict j, re_wt e with
       | Some d, Some w =>
           re_has_op_config e && negb (re_unknown_keys e)
           && negb (rt_unknown_keys w) && negb (rt_missing_bits w)
           && opt_eqb tcfg_eqb (Some (rt_cfg w)) (ocfg_weight_tensor_config d)
           && opt_eqb tcfg_eqb (option_map rt_cfg (re_act e)) (ocfg_activation_tensor_config d)
           && precision_eqb (re_prec e) (ocfg_compute_precision d)
           && Bool.eqb (re_expl e) (ocfg_explicit_dequantize d)
           && Bool.eqb (re_skip e) (ocfg_skip_checks d)
       | _, _ => false
       end.
End WithCheck.
