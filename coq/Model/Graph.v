(* Model/Graph.v — abstract model of a .tflite (DESIGN §3.1) and the data
   exchanged between params generator, instruction generator and performer.
   No proofs here. *)
From VF Require Import Base.Prelude Gen.Enums.

(* TFLite TensorType codes *)
Definition TY_FLOAT32 : Z := 0.
Definition TY_FLOAT16 : Z := 1.
Definition TY_INT32 : Z := 2.
Definition TY_INT64 : Z := 4.
Definition TY_INT16 : Z := 7.
Definition TY_INT8 : Z := 9.
Definition TY_INT4 : Z := 17.
(* builtin operator codes of the two ops the quantizer inserts *)
Definition BC_DEQUANTIZE : Z := 6.
Definition BC_QUANTIZE : Z := 114.

(* Quantization parameters as seen by insts/perform: an equality class id
   (the harness computes the classes with Python's ==), plus the three facts
   quantize_tensor looks at. *)
Record qparam := { qp_id : Z; qp_uniform : bool; qp_bits : Z; qp_has_data : bool }.
Definition qparam_eqb (a b : qparam) : bool := Z.eqb (qp_id a) (qp_id b).
Definition J_qparam (p : qparam) : J :=
  JL [JZ (qp_id p); JB (qp_uniform p); JZ (qp_bits p); JB (qp_has_data p)].

(* tensor name = interned root string + list of suffixes appended by the
   insert transformations (0 = "_quantized", 1 = "_dequant"); the harness
   decomposes original names the same way, so equality here is string
   equality. *)
Record tensor := {
  t_root : Z; t_sfx : list Z;
  t_shape : Z;               (* opaque id of the shape; by construction id mod 8 = rank *)
  t_ty : Z; t_buf : Z;
  t_q : option Z             (* id of the attached uniform parameters *)
}.
Definition t_rank (t : tensor) : Z := t_shape t mod 8.
Definition name_eqb (a b : tensor) : bool :=
  Z.eqb (t_root a) (t_root b) && list_eqb Z.eqb (t_sfx a) (t_sfx b).

Record op := {
  o_code : Z;                (* index into the opcode table *)
  o_ins : list Z;            (* -1 = absent optional operand *)
  o_outs : list Z;
  o_uid : Z                  (* opaque identity: options payload etc. *)
}.

Record subgraph := {
  sg_tensors : list tensor; sg_ops : list op;
  sg_inputs : list Z; sg_outputs : list Z }.

Inductive bufval := BEmpty | BOrig (c : Z) | BQuant (pid : Z).

Record sigdef := { sd_sg : Z; sd_inputs : list Z; sd_outputs : list Z }.

Record model := {
  m_subgraphs : list subgraph;
  m_buffers : list bufval;
  m_opcodes : list Z;        (* builtin codes *)
  m_sigs : list sigdef }.

(* ---- canonical encoding ---- *)
Definition J_tensor (t : tensor) : J :=
  JL [JZ (t_root t); Jlist JZ (t_sfx t); JZ (t_shape t); JZ (t_ty t); JZ (t_buf t);
      Jopt JZ (t_q t)].
Definition J_op (o : op) : J :=
  JL [JZ (o_code o); Jlist JZ (o_ins o); Jlist JZ (o_outs o); JZ (o_uid o)].
Definition J_subgraph (g : subgraph) : J :=
  JL [Jlist J_tensor (sg_tensors g); Jlist J_op (sg_ops g);
      Jlist JZ (sg_inputs g); Jlist JZ (sg_outputs g)].
Definition J_buf (b : bufval) : J :=
  match b with BEmpty => JL [JZ 0] | BOrig c => JL [JZ 1; JZ c] | BQuant p => JL [JZ 2; JZ p] end.
Definition J_sig (s : sigdef) : J :=
  JL [JZ (sd_sg s); Jlist JZ (sd_inputs s); Jlist JZ (sd_outputs s)].
Definition J_model (m : model) : J :=
  JL [Jlist J_subgraph (m_subgraphs m); Jlist J_buf (m_buffers m);
      Jlist JZ (m_opcodes m); Jlist J_sig (m_sigs m)].

(* ---- plan / instruction data (qtyping) ---- *)
Record o2t := { o2t_op : Z; o2t_trans : list qtrans; o2t_params : option qparam }.
Record ttp := { ttp_name : Z * list Z;       (* root, suffixes *)
                ttp_producer : option o2t;
                ttp_consumers : option (list o2t) }.
Record inst := { i_trans : qtrans; i_tensor : Z; i_producer : Z;
                 i_consumers : list Z; i_params : option qparam }.
Record tinsts := { ti_name : Z * list Z; ti_sg : Z; ti_insts : list inst }.

Definition J_inst (i : inst) : J :=
  JL [JZ (qtrans_code (i_trans i)); JZ (i_tensor i); JZ (i_producer i);
      Jlist JZ (i_consumers i); Jopt (fun p => JZ (qp_id p)) (i_params i)].
Definition J_tinsts (t : tinsts) : J :=
  JL [JZ (fst (ti_name t)); Jlist JZ (snd (ti_name t)); JZ (ti_sg t);
      Jlist J_inst (ti_insts t)].

Definition zmem := memZ.
Definition nthZ {A} (l : list A) (i : Z) : option A :=
  if i <? 0 then None else nth_opt l (Z.to_nat i).
Definition lenZ {A} (l : list A) : Z := Z.of_nat (length l).
