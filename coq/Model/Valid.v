(* Model/Valid.v — executable model of the bookkeeping of model_validator:
   which tensor names are compared (compare_model), how per-sample values are
   aggregated, and how ComparisonResult.add_new_signature_results files every
   name under inputs / outputs / constants / intermediates by popping names
   from the result dict.  Names are interned integers; values are abstract.
   No proofs here. *)
From VF Require Import Base.Prelude.

Section Valid.
  Variable V : Type.

  Definition results := list (Z * V).         (* dict, insertion ordered *)

  (* dict.pop(k): KeyError when absent *)
  Fixpoint pop (r : results) (k : Z) : res (V * results) :=
    match r with
    | [] => Err KeyError
    | (k', v) :: t =>
        if Z.eqb k k' then Ok (v, t)
        else x <- pop t k ;; Ok (fst x, (k', v) :: snd x)
    end.

  (* for name in names: group[name] = result.pop(name)   (a repeated name
     raises KeyError at its second pop) *)
  Fixpoint pop_all (r : results) (names : list Z) : res (results * results) :=
    match names with
    | [] => Ok ([], r)
    | n :: ns =>
        x <- pop r n ;;
        y <- pop_all (snd x) ns ;;
        Ok ((n, fst x) :: fst y, snd y)
    end.

  (* outputs and constants (after the F23 / F26 fixes):
       for name in names: if name not in <groups filled so far>: group[name] = result.pop(name)
     — a tensor listed twice among the signature outputs, an output that is
     also an input, a constant that is also an output: filed once, under the
     first of inputs / outputs / constants that lists it *)
  Fixpoint pop_all_skip (r : results) (names seen : list Z) : res (results * results) :=
    match names with
    | [] => Ok ([], r)
    | n :: ns =>
        if memZ n seen then pop_all_skip r ns seen
        else
          x <- pop r n ;;
          y <- pop_all_skip (snd x) ns (n :: seen) ;;
          Ok ((n, fst x) :: fst y, snd y)
    end.

  Record groups := { g_inputs : results; g_outputs : results; g_constants : results;
                     g_intermediates : results }.

  Definition partition (r : results) (ins outs consts : list Z) : res groups :=
    a <- pop_all r ins ;;
    b <- pop_all_skip (snd a) outs ins ;;                  (* an output that is an input stays under inputs *)
    c <- pop_all_skip (snd b) consts (ins ++ outs) ;;      (* a constant that is an output stays under outputs *)
    Ok {| g_inputs := fst a; g_outputs := fst b; g_constants := fst c;
          g_intermediates := snd c |}.

  (* compare_model: names of the reference interpreter (in its order) that
     also exist in the target interpreter *)
  Definition compared_names (ref targ : list Z) : list Z :=
    filter (fun n => memZ n targ) ref.

  (* compare_model's aggregation over the test inputs of one signature:
       comparison_results = {}
       for sample: for name in compared names of that run:
           comparison_results.setdefault(name, []).append(compare_fn(...))
       aggregated[name] = mean(comparison_results[name])
     A sample is the list (name, value of compare_fn) in the order the names
     are visited; [mean] is the reduction (np.mean). *)
  Fixpoint append_to (d : list (Z * list V)) (k : Z) (v : V) : list (Z * list V) :=
    match d with
    | [] => [(k, [v])]
    | (k', l) :: t => if Z.eqb k k' then (k', l ++ [v]) :: t else (k', l) :: append_to t k v
    end.
  Definition add_sample (d : list (Z * list V)) (s : list (Z * V)) : list (Z * list V) :=
    fold_left (fun d kv => append_to d (fst kv) (snd kv)) s d.
  Definition collect (samples : list (list (Z * V))) : list (Z * list V) :=
    fold_left add_sample samples [].
  Definition aggregate (mean : list V -> V) (samples : list (list (Z * V))) : results :=
    map (fun kl => (fst kl, mean (snd kl))) (collect samples).
End Valid.

Arguments pop {V}. Arguments pop_all {V}. Arguments pop_all_skip {V}. Arguments partition {V}.
Arguments g_inputs {V}. Arguments g_outputs {V}. Arguments g_constants {V}.
Arguments g_intermediates {V}.
Arguments append_to {V}. Arguments add_sample {V}. Arguments collect {V}. Arguments aggregate {V}.
