(* Model/ArithF32.v — the IMPLEMENTED quantization arithmetic, bit-exact, on
   Flocq's IEEE-754 binary32 / binary64 (round to nearest even), mirroring the
   numpy expressions of uniform_quantize_tensor.py, calibration_utils.py and
   min_max_quantize_utils._get_min_max_from_quant_params, including numpy's
   dtype promotion rules (python scalars are weak: they are first rounded to
   the array's dtype; float32 + int32 arrays promote to float64).
   Executable: the correspondence harness compares bit patterns with numpy.
   No proofs here. *)
From Coq Require Import ZArith List Bool.
From Flocq Require Import Core IEEE754.Binary IEEE754.Bits.
Import ListNotations.
Open Scope Z_scope.

Definition NE := BinarySingleNaN.mode_NE.
Definition Hpe32 : BinarySingleNaN.Prec_lt_emax 24 128 := eq_refl.
Definition Hpe64 : BinarySingleNaN.Prec_lt_emax 53 1024 := eq_refl.
Definition Hp32 : Prec_gt_0 24 := eq_refl.
Definition Hp64 : Prec_gt_0 53 := eq_refl.

(* one numeric format = the operations numpy performs in that dtype *)
Record fops := {
  F : Type;
  f_add : F -> F -> F; f_sub : F -> F -> F; f_mul : F -> F -> F; f_div : F -> F -> F;
  f_abs : F -> F; f_rint : F -> F;
  f_cmp : F -> F -> option comparison;
  f_isnan : F -> bool;
  f_ofZ : Z -> F;                 (* exact for the small integers used here *)
  f_trunc : F -> Z;               (* C cast to integer of an integral finite value *)
  f_bits : F -> Z; f_of_bits : Z -> F }.

Definition ops32 : fops := {|
  F := binary32;
  f_add := b32_plus NE; f_sub := b32_minus NE; f_mul := b32_mult NE; f_div := b32_div NE;
  f_abs := b32_abs;
  f_rint := Bnearbyint 24 128 Hpe32 unop_nan_pl32 NE;
  f_cmp := b32_compare;
  f_isnan := is_nan 24 128;
  f_ofZ := fun z => binary_normalize 24 128 Hp32 Hpe32 NE z 0 false;
  f_trunc := Btrunc 24 128;
  f_bits := bits_of_b32; f_of_bits := b32_of_bits |}.

Definition ops64 : fops := {|
  F := binary64;
  f_add := b64_plus NE; f_sub := b64_minus NE; f_mul := b64_mult NE; f_div := b64_div NE;
  f_abs := b64_abs;
  f_rint := Bnearbyint 53 1024 Hpe64 unop_nan_pl64 NE;
  f_cmp := b64_compare;
  f_isnan := is_nan 53 1024;
  f_ofZ := fun z => binary_normalize 53 1024 Hp64 Hpe64 NE z 0 false;
  f_trunc := Btrunc 53 1024;
  f_bits := bits_of_b64; f_of_bits := b64_of_bits |}.

(* float64 -> float32 (what numpy does with a python float next to a float32
   array, and astype(np.float32)) *)
Definition f64_to_f32 (x : binary64) : binary32 :=
  match x with
  | B754_zero _ _ s => B754_zero 24 128 s
  | B754_infinity _ _ s => B754_infinity 24 128 s
  | B754_nan _ _ s _ _ => proj1_sig (default_nan_pl32)
  | B754_finite _ _ s m e _ => binary_normalize 24 128 Hp32 Hpe32 NE (cond_Zopp s (Zpos m)) e s
  end.
Definition f32_to_f64 (x : binary32) : binary64 :=
  match x with
  | B754_zero _ _ s => B754_zero 53 1024 s
  | B754_infinity _ _ s => B754_infinity 53 1024 s
  | B754_nan _ _ s _ _ => proj1_sig (default_nan_pl64)
  | B754_finite _ _ s m e _ => binary_normalize 53 1024 Hp64 Hpe64 NE (cond_Zopp s (Zpos m)) e s
  end.
(* float32 -> float16 bit pattern (astype(np.float16)) *)
Definition Hpe16 : BinarySingleNaN.Prec_lt_emax 11 16 := eq_refl.
Definition Hp16 : Prec_gt_0 11 := eq_refl.
Definition f32_to_f16 (x : binary32) : binary_float 11 16 :=
  match x with
  | B754_zero _ _ s => B754_zero 11 16 s
  | B754_infinity _ _ s => B754_infinity 11 16 s
  | B754_nan _ _ s _ _ => B754_nan 11 16 s 512%positive eq_refl
  | B754_finite _ _ s m e _ => binary_normalize 11 16 Hp16 Hpe16 NE (cond_Zopp s (Zpos m)) e s
  end.
Definition f32_to_f16_bits (x : binary32) : Z := bits_of_binary_float 10 5 (f32_to_f16 x).

Section Ops.
  Variable O : fops.
  Notation T := (F O).

  (* np.maximum / np.minimum: (a >= b || isnan a) ? a : b *)
  Definition f_ge (a b : T) : bool :=
    match f_cmp O a b with Some Gt | Some Eq => true | _ => false end.
  Definition f_le (a b : T) : bool :=
    match f_cmp O a b with Some Lt | Some Eq => true | _ => false end.
  Definition np_maximum (a b : T) : T := if f_ge a b || f_isnan O a then a else b.
  Definition np_minimum (a b : T) : T := if f_le a b || f_isnan O a then a else b.
  Definition np_clip (x lo hi : T) : T := np_minimum (np_maximum x lo) hi.

  Definition qminZ (bits : Z) : Z := - 2 ^ (bits - 1).
  Definition qmaxZ (bits : Z) : Z := 2 ^ (bits - 1) - 1.

  (* tensor_zp_scale_from_min_max on one (min, max) pair; [eps] is the
     min_bound literal already rounded to this dtype.  Returns (zp as the
     rounded float, scale). *)
  Definition zp_scale (eps : T) (bits : Z) (symmetric : bool) (mn mx : T) : T * T :=
    if symmetric then
      let bound := np_maximum (np_maximum (f_abs O mn) (f_abs O mx)) eps in
      (f_ofZ O 0, f_div O bound (f_ofZ O (qmaxZ bits)))
    else
      let zero := f_ofZ O 0 in
      let bound_max := np_maximum mx zero in
      let bound_min := np_minimum mn zero in
      let bound := np_maximum (f_sub O bound_max bound_min) eps in
      let scale := f_div O bound (f_ofZ O (qmaxZ bits - qminZ bits)) in
      let zp := f_sub O (f_ofZ O (qminZ bits)) (f_div O bound_min scale) in
      (f_rint O zp, scale).

  (* uniform_quantize on one element: multiply by the inverse scale, add the
     zero point, rint, clip (narrow range when symmetric); returns the float
     before the integer cast *)
  Definition quantize_f (bits : Z) (narrow : bool) (scale : T) (zp : Z) (x : T) : T :=
    let inv := f_div O (f_ofZ O 1) scale in
    let y := f_add O (f_mul O x inv) (f_ofZ O zp) in
    let lo := if narrow then qminZ bits + 1 else qminZ bits in
    np_clip (f_rint O y) (f_ofZ O lo) (f_ofZ O (qmaxZ bits)).
  Definition quantize (bits : Z) (narrow : bool) (scale : T) (zp : Z) (x : T) : Z :=
    f_trunc O (quantize_f bits narrow scale zp x).

  (* moving average: smoothing_factor * w + (1.0 - smoothing_factor) * update,
     both factors already rounded to this dtype *)
  Definition moving_average (a b : T) (w u : T) : T :=
    f_add O (f_mul O a w) (f_mul O b u).
End Ops.

(* two's-complement wrap of an integer to n bits (numpy integer arithmetic) *)
Definition wrap (n : Z) (z : Z) : Z :=
  let m := 2 ^ n in let r := z mod m in if r <? 2 ^ (n - 1) then r else r - m.

(* uniform_dequantize on one element of an integer array: the data is widened
   to int64 before the zero point is subtracted (no wrap-around), and int64 *
   float32 promotes to float64 *)
Definition dequantize (scale : binary32) (zp c : Z) : binary64 :=
  b64_mult NE (f_ofZ ops64 (c - zp)) (f32_to_f64 scale).
(* the arithmetic the code used before the fix of F11 (kept for the replay of
   the old witness): subtraction in the n-bit type of both operands *)
Definition dequantize_wrapping (n : Z) (scale : binary32) (zp c : Z) : binary32 :=
  b32_mult NE (f_ofZ ops32 (wrap n (c - zp))) scale.

(* symmetric_quantize_bias_tensor on one element: float32 effective scale and
   inverse, then float64 because of the int32 zero-point array *)
Definition quantize_bias (bits : Z) (s_in s_w : binary32) (b : binary32) : Z :=
  let eff := b32_mult NE s_in s_w in
  let inv := b32_div NE (f_ofZ ops32 1) eff in
  let y := f32_to_f64 (b32_mult NE b inv) in
  let y2 := b64_plus NE y (f_ofZ ops64 0) in
  f_trunc ops64 (np_clip ops64 (f_rint ops64 y2) (f_ofZ ops64 (qminZ bits + 1))
                         (f_ofZ ops64 (qmaxZ bits))).
Definition bias_scale (s_in s_w : binary32) : binary32 := b32_mult NE s_in s_w.

(* _get_min_max_from_quant_params in float64: (q - zp) * scale; min = -max
   when the activation config is symmetric *)
Definition fixed_min_max (bits : Z) (symmetric : bool) (scale : binary64) (zp : Z)
  : binary64 * binary64 :=
  let deq q := b64_mult NE (b64_minus NE (f_ofZ ops64 q) (f_ofZ ops64 zp)) scale in
  let fmax := deq (qmaxZ bits) in
  let fmin := if symmetric then b64_opp fmax else deq (qminZ bits) in
  (fmin, fmax).

(* int4 packing of two int8-typed codes into one byte (quantize_tensor._pack_data) *)
Definition pack_pair (even odd : Z) : Z :=
  Z.lor (Z.land (even mod 256) 15) ((Z.shiftl (odd mod 256) 4) mod 256).
Fixpoint pack4 (l : list Z) : list Z :=
  match l with
  | [] => []
  | [e] => [pack_pair e 0]
  | e :: o :: r => pack_pair e o :: pack4 r
  end.
Definition unpack_nibble (n : Z) : Z := if n <? 8 then n else n - 16.
Fixpoint unpack4 (count : nat) (bytes : list Z) : list Z :=
  match count, bytes with
  | O, _ => []
  | S O, b :: _ => [unpack_nibble (Z.land b 15)]
  | S (S c), b :: r => unpack_nibble (Z.land b 15) :: unpack_nibble (Z.shiftr b 4) :: unpack4 c r
  | _, [] => []
  end.
