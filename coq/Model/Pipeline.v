(* Model/Pipeline.v — the whole quantize() pipeline as one function of
   (model, recipe-manager state, statistics): plan generation (with the
   buffer-sharing check), instruction generation, graph transformation.
   Parameter equality classes: [mk_cls] (see Model/Plan.v).  No proofs here. *)
From VF Require Import Base.Prelude Gen.Enums Gen.Configs Gen.Scopes Model.Recipe Model.Check
     Model.Graph Model.Plan Model.Insts Model.Perform.

Definition pipeline_cls (mk_cls : list pterm -> pterm -> Z)
           (matches : Z -> Z -> bool) (rules : state)
           (scope_id : Z -> list stok -> Z) (m : model)
           (scopes : list (list bool)) (stats : option (list name_t))
  : res (model * list tplan) :=
  r <- plan_checked_cls mk_cls matches rules scope_id m scopes stats ;;
  let cls := mk_cls (terms_of (fst r)) in
  tis <- insts_of_params m (map (to_ttp cls) (fst r)) ;;
  m' <- transform_graph m tis ;;
  Ok (m', fst r).

Definition pipeline := pipeline_cls term_class.
