"""Per-property configuration of the check driver."""

COMMON_TB = [
    'Coq 8.16.1 kernel (coqc; thorough tier re-checks with coqchk -o); vm_compute used, native_compute not used',
    'translator tools/py2v (Python ast/json -> Gallina), fail-closed; output Gen/*.v regenerated from /repo on every run',
    'correspondence harness (generators, canonical J encoding, exception->enum map, coqc case evaluation)',
]

PROPS = {
    'C11': {
        'steps': [{'script': 'corr_recipe.py', 'timeout': 900,
                   'timeout_thorough': 3000}],
        'required_theorems': ['C11_get_is_last_applicable', 'C11_reachable_inv',
                              'C11_add_model'],
        'rule': ('histories over add/load/get/need_calibration: exhaustive over a '
                 '25-letter alphabet (2 regexes x 3 op selectors x 4 config/algorithm '
                 'choices + load) up to length 2 (quick) / 3 (thorough), each step '
                 'followed by 6 (op,scope) queries; plus random histories of length '
                 '4..12 over a richer alphabet (10 regexes, 12 ops, 16 configs incl. '
                 'unsupported/skip_checks/fp16/blockwise, 4 algorithm keys). '
                 'non-trivial = at least one query resolved to a rule and at least one '
                 'to none; distinct = distinct canonical output encoding'),
        'trusted_base': COMMON_TB + [
            "Python's re.search enters the model as the parameter `matches` (table computed by the harness)",
            'support check = translated checkers + hand model of the registry dispatch (Model/Check.v), compared with the implementation on every add/get of every history',
        ],
        'assumptions': [
            'operation names are members of TFLOperationName; algorithm keys are arbitrary strings',
            'the config-check policy is the default one (load_config_policy not called)',
        ],
    },
}
