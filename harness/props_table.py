"""Per-property configuration of the check driver."""

COMMON_TB = [
    'Coq 8.16.1 kernel (coqc; thorough tier re-checks with coqchk -o); vm_compute used, native_compute not used',
    'translator tools/py2v (Python ast/json -> Gallina), fail-closed; output Gen/*.v regenerated from /repo on every run',
    'correspondence harness (generators, canonical J encoding, exception->enum map, coqc case evaluation)',
]

GRAPH_RULE = ('float models in converter normal form built with the flatbuffer object API: 1-3 '
              'subgraphs/signatures, 1-3 inputs, 1-10 ops over the 21 supported builtins + 5 unsupported '
              'ones, biased towards multi-consumer tensors, repeated operands (x*x), tensors exported and '
              'consumed, constants shared by tensors / by several ops / across subgraphs, optional bias -1, '
              'int32 operands; x recipes: shipped default recipes or 1-4 random rules (regex from the '
              "model's own scopes: '.*', prefixes, anchored, without ';') x op selector x 13 configs "
              '(static a8/a16 x w8/w4, dynamic, weight-only, fp16, no_quantize); statistics: 75% true '
              "min/max from the check's own interpreter run, 25% synthetic (degenerate ranges). "
              'non-trivial = at least one instruction other than NO_QUANTIZE; distinct = distinct instruction encoding')
CALIB_RULE = ('generated models (1-3 signatures) x recipes needing calibration (shipped static recipes, or 1-3 rules '
              "whose regexes are built from the model's own scopes: exact$, exact;$, ^scope$, prefix, name;, .*) "
              'x datasets of 1-4 random samples; every signature calibrated, chained through '
              'previous_calibration_result; one random split per signature for the resume law; '
              'non-trivial = result with >= 2 entries; distinct = distinct model/recipe/data literal')
STATIC_RULE = ('; static oracle: every returned model checked operand by operand against the dtype the recipe '
               'resolution implies (C03), every quantized tensor against the op-level parameter rules and the '
               'float64 reference formula on the statistics (C04), every rewritten constant decoded by an '
               'independent decoder and compared with the original (C05), every shared buffer against all '
               'tensors on it (C15)')
GRAPH_TB = [
    'parameters enter Insts/Perform as equality classes computed by the harness with Python == (UniformQuantParams.__eq__), plus (kind, bits, has_data)',
    'flatbuffers encoder/decoder, tensorflow.lite.tools.flatbuffer_utils and copy.deepcopy are exercised (interface E re-parses the returned bytes), not modelled',
    'EMULATED_SUBCHANNEL (op replacement) is out of the model',
]
GRAPH_ASSUME = [
    'input models are float models in converter normal form (unique tensor names, one producer per tensor, topological order)',
]

PROPS = {
    'C11': {
        'steps': [{'script': 'corr_recipe.py', 'timeout': 900,
                   'timeout_thorough': 3000}],
        'required_theorems': ['C11_load_forgets_previous_rules', 'C11_get_is_last_applicable', 'C11_reachable_inv',
                              'C11_add_model'],
        'rule': ('histories over add/load/get/need_calibration: exhaustive over a '
                 '25-letter alphabet (2 regexes x 3 op selectors x 4 config/algorithm '
                 'choices + load) up to length 2 (quick) / 3 (thorough), each step '
                 'followed by 6 (op,scope) queries; plus random histories of length '
                 '4..12 over a richer alphabet (10 regexes, 12 ops, 16 configs incl. '
                 'unsupported/skip_checks/fp16/blockwise, 4 algorithm keys). '
                 'non-trivial = at least one query resolved to a rule and at least one '
                 'to none; distinct = distinct canonical output encoding'),
        'trusted_base': COMMON_TB + [
            "Python's re.search enters the model as the parameter `matches` (table computed by the harness)",
            'support check = translated checkers + hand model of the registry dispatch (Model/Check.v), compared with the implementation on every add/get of every history',
        ],
        'assumptions': [
            'operation names are members of TFLOperationName; algorithm keys are arbitrary strings',
            'the config-check policy is the default one (load_config_policy not called)',
        ],
    },
    'C12': {
        'steps': [{'script': 'corr_recipe.py', 'timeout': 900,
                   'timeout_thorough': 3000},
                  {'script': 'oracle_c12.py', 'timeout': 600}],
        'required_theorems': ['C12_roundtrip_partial', 'C12_shipped_files_load',
                              'C12_default_recipes_reexport',
                              'C12_noquant_config_refuted',
                              'C12_default_config_refuted'],
        'rule': ('R: the C11 histories (every RLoadSelf step is a json.dumps/loads round trip '
                 'into a fresh RecipeManager, compared step by step with the model); '
                 'F: every file under recipes/ loaded by the implementation vs Gen/Recipes.v '
                 'through Model/RecipeFile.v; oracle: save/reload of the final recipe of random '
                 'histories (recipe equality, resolution at 30 (op,scope) pairs). '
                 'non-trivial = recipe with >= 2 rules; distinct = distinct recipe JSON'),
        'trusted_base': COMMON_TB + [
            'json.dumps/json.loads and dataclasses.asdict are exercised by the harness, not modelled (to_dict is modelled as "None fields absent")',
        ],
        'assumptions': [
            'byte-identical quantize() output after reload follows from equal rule lists (C11 resolution is a function of the rule list) and the determinism of the pipeline (C14); it is additionally executed in the graph-level step when present',
            'C12_roundtrip_partial is guarded by `loadable` (exactly the guard the code imposes); the complement is the finding class F9a/F9b (KNOWN_FINDINGS.json)',
        ],
    },
    'C13': {
        'steps': [{'script': 'corr_lattice.py', 'timeout': 600},
                  {'script': 'oracle_c13.py', 'timeout': 1500, 'timeout_thorough': 3000}],
        'required_theorems': ['C13_accept_sound_partial', 'C13_accept_sound_refuted', 'C13_accept_iff_kernel_partial',
                              'C13_reject_total', 'C13_star_consistent',
                              'C13_specific_refused'],
        'rule': ('the full finite lattice enumerated exhaustively on both sides: 2 algorithms x 24 '
                 'operator names x 5 activation settings x 24 weight settings x 2 precisions x 2 '
                 'explicit_dequantize = 23040 points (classification: not constructible / '
                 'ValueError / accepted), plus the unrolled policy table, the registry for 3x25 '
                 '(alg,op) and get_tensor_transformations on 480x4 inputs. non-trivial = accepted '
                 'points (distinct by construction)'),
        'trusted_base': COMMON_TB + [
            'Spec/KernelTypes.v: hand transcription of which (op, mode, widths) LiteRT kernels support; validated by execution in the runtime step',
        ],
        'assumptions': [
            'lattice as stated in the property (block-wise granularity, skip_checks and custom policies are outside it)',
            'runtime soundness of accepted pairs (interpreter prepares, outputs track float model) is validated by execution, not proved',
        ],
    },
    'C01': {
        'steps': [{'script': 'corr_graph.py', 'timeout': 1500, 'timeout_thorough': 6000}],
        'required_theorems': ['C01_insertion_preserves_wf', 'C01_quantize_tensor_preserves_wf',
                              'C01_transform_graph_preserves_wellformedness',
                              'C01_generated_instructions_are_exact',
                              'C01_pipeline_returns_wellformed_subgraphs_or_raises',
                              'C01_transform_graph_preserves_wf_model',
                              'C01_pipeline_returns_wf_model_or_raises',
                              'C01_inserted_tensor_name_is_fresh',
                              'C01_transform_graph_keeps_tensor_names_unique',
                              'C01_pipeline_keeps_tensor_names_unique'],
        'rule': GRAPH_RULE,
        'trusted_base': COMMON_TB + GRAPH_TB,
        'assumptions': GRAPH_ASSUME + [
            'composition IS a theorem: the performer\'s global invariant (op-id maps resolve every pending producer reference exactly) is preserved by every step, the instruction generator only emits exact instructions, hence the whole modelled pipeline maps well-formed subgraphs to well-formed subgraphs or raises; opcode / buffer index ranges and signature entries are part of the theorem (wf_model); unique tensor names are a theorem too (the fresh-name retry loop never exhausts its fuel: pigeonhole; names_uniqueb is evaluated in Coq on every generated input and result)',
            'interpreter allocate/invoke is runtime behaviour: validated by execution in a forked child on every returned model quantized with real statistics'],
    },
    'C02': {
        'steps': [{'script': 'corr_graph.py', 'timeout': 1500, 'timeout_thorough': 6000}],
        'required_theorems': ['C02_insertion_rewires_only_listed', 'C02_signature_follows_output',
                              'C02_transform_graph_preserves_skeleton', 'C02_pipeline_preserves_skeleton'],
        'rule': GRAPH_RULE,
        'trusted_base': COMMON_TB + GRAPH_TB,
        'assumptions': GRAPH_ASSUME + [
            'I/O names are compared on the erased graph (an inserted boundary tensor is named <x>_dequant by design); number/order/shapes/signature consistency are compared raw',
            'op-replacement (EMULATED_SUBCHANNEL / BLOCKWISE) excluded as the property states'],
    },
    'C09': {
        'steps': [{'script': 'corr_calib.py', 'timeout': 1500, 'timeout_thorough': 6000}],
        'required_theorems': ['C09_statistics_only_for_operands_of_selected_operators', 'C09_each_sample_applied_once', 'C09_first_sample_initialises',
                              'C09_io_operator_copies_are_irrelevant', 'C09_resume_equals_one_pass',
                              'C09_calibrate_is_run_samples'],
        'rule': CALIB_RULE,
        'trusted_base': COMMON_TB + GRAPH_TB + [
            "per-sample tensor min/max come from the check's own LiteRT interpreter instance (runtime oracle); the moving average is evaluated by the harness with the documented formula and compared BITWISE with the implementation"],
        'assumptions': GRAPH_ASSUME + [
            'the resume law IS a theorem on the calibration model (run_samples: store-level, every split, incl. the accumulated I/O-operator copies restarting); that the implementation loads the previous result as an equal value (deep copy) is checked by correspondence K and the oracles',
            'interpreter tensor contents are runtime behaviour'],
    },
    'C10': {
        'steps': [{'script': 'corr_calib.py', 'timeout': 1500, 'timeout_thorough': 6000},
                  {'script': 'corr_plan.py', 'timeout': 1500, 'timeout_thorough': 6000}],
        'required_theorems': ['C10_static_resolution_implies_need_calibration', 'C10_scope_eq', 'C10_same_resolution', 'C10_scope_per_op',
                              'C10_calibration_records_every_runtime_operand_of_selected_ops',
                              'C10_missing_statistics_only_for_absent_runtime_entry'],
        'rule': CALIB_RULE,
        'trusted_base': COMMON_TB + GRAPH_TB,
        'assumptions': GRAPH_ASSUME + [
            'C10_scope_eq is about the two scope functions as regenerated from calibrator.py and params_generator.py; the regex engine is a parameter',
            'no-missing-statistics: both halves are theorems (calibration records every runtime operand of every selected op after one sample; the plan raises the error only for a runtime tensor without entry); their composition through the materializers is executed (quantize(calibrate()) on every case), not one theorem'],
    },
    'C17': {
        'steps': [{'script': 'corr_arith.py', 'timeout': 1500, 'timeout_thorough': 6000}],
        'required_theorems': ['C17_scale_positive', 'C17_zero_point_in_range',
                              'C17_zero_exactly_representable', 'C17_range_covered',
                              'C17_quantize_monotone', 'C17_dequantize_quantize_half_step',
                              'C17_quantize_dequantize_identity',
                              'C17_f32_roundtrip_all_codes_on_grid', 'C17_f32_scale_finite_refuted',
                              'C17_model_pins'],
        'rule': ('33x2 directed (min,max,bits,symmetry) cases (degenerate, one-sided, tiny, huge, wider than '
                 'FLT_MAX) + random float32 ranges over 80 orders of magnitude x bits 4/8/16 x both symmetries; '
                 'per range: zp/scale, 4 quantized points, all codes (thorough) or 12 codes (quick) dequantized, '
                 'float64 path, bias, moving average, float16, fixed ranges, int4 packing; every row compared as '
                 'IEEE bit patterns with the Flocq model. non-trivial = finite positive scale; distinct = distinct '
                 '(bits, symmetry, min, max)'),
        'trusted_base': COMMON_TB + [
            'Flocq 4.1 (IEEE-754 formalisation) and the Coq Reals: axioms sig_forall_dec, sig_not_dec, functional_extensionality_dep, classic as reported',
            'numpy dtype promotion rules are written into Model/ArithF32.v by hand and validated bit-for-bit by correspondence A',
            'C cast of an out-of-range float to an integer type (undefined behaviour) is not modelled'],
        'assumptions': [
            'Part 1 theorems are about the ideal real arithmetic; the float32-vs-real rounding envelope is not proved (stated)',
            'Part 2 sweeps are finite computations over the grid stated in the theorem'],
    },
    'C03': {
        'steps': [{'script': 'corr_plan.py', 'timeout': 1500, 'timeout_thorough': 6000},
                  {'script': 'corr_graph.py', 'timeout': 1500, 'timeout_thorough': 6000},
                  {'script': 'oracle_static.py', 'timeout': 1500, 'timeout_thorough': 6000}],
        'required_theorems': ['C03_tensor_without_instruction_is_returned_unchanged',
                              'C03_quantized_in_place_tensor_gets_selected_dtype',
                              'C03_every_consumer_gets_its_planned_transformations',
                              'C03_readers_of_a_tensor_without_instruction_are_unchanged',
                              'C03_readers_of_a_tensor_quantized_only_in_place_are_unchanged',
                              'C03_listed_consumers_read_the_inserted_tensor_until_the_end',
                              'C03_single_insertion_is_read_by_exactly_the_listed_operators',
                              'C03_insertion_after_in_place_quantization_is_read_by_exactly_the_listed_operators',
                              'C03_insertion_that_is_not_retargeted_is_read_by_exactly_the_listed_operators',
                              'C03_last_instruction_of_a_nested_list_is_read_by_exactly_the_listed_operators',
                              'C03_horizontal_grouping_produces_nests', 'C03_groups_at_any_depths_are_nested_or_disjoint',
                              'C03_consumer_side_instructions_list_one_group_each',
                              'C03_consumer_lists_of_two_groups_are_nested_or_disjoint',
                              'C03_consumer_side_instructions_are_emitted_by_depth',
                              'C03_later_consumer_list_is_inside_or_disjoint_from_an_earlier_one',
                              'C03_generator_invents_no_instruction', 'C03_mode_table', 'C03_policy_configs_have_a_mode', 'C03_policy_activations_are_per_tensor',
                              'C03_generated_last_instruction_is_read_by_exactly_the_listed_operators',
                              'C03_generated_last_instruction_is_read_by_exactly_the_listed_operators_skipping_no_quantize',
                              'C03_no_quantize_instructions_are_inert',
                              'C03_pipeline_last_instructions_are_read_by_exactly_the_listed_operators',
                              'C03_unselected_op_untouched', 'C03_nonfloat_operand_never_quantized',
                              'C03_quantize_tensor_effect',
                              'C03_inserted_op_converts_between_neighbour_dtypes',
                              'C03_dtype_of_bit_width'],
        'rule': GRAPH_RULE + STATIC_RULE,
        'trusted_base': COMMON_TB + GRAPH_TB,
        'assumptions': GRAPH_ASSUME + [
            'theorems per layer (decision function, plan of unselected ops / ignored operands, one performer step) PLUS two whole-run theorems of the performer (a tensor no instruction names is returned unchanged; a tensor whose list starts with QUANTIZE_TENSOR/ADD_DEQUANTIZE(p) is returned with p\'s dtype and annotation); PLUS two theorems over all plan entries of the instruction generator (every consumer position is carried by an emitted instruction that lists the consumer, unchanged or — position 0 against an ADD_DEQUANTIZE producer — as its documented vertical rewrite; every emitted instruction is the producer\'s or lists only consumers that planned it); PLUS two operand-level whole-run theorems of the performer (readers of an un-named tensor are unchanged; the listed consumers of an inserted QUANTIZE/DEQUANTIZE read the new tensor at their old slots until the end of the run when nothing later names it); the single-insertion case is stated and proved in terms of the ORIGINAL graph (C03_single_insertion_is_read_by_exactly_the_listed_operators); what remains validated only (correspondences P, I, T/E and the per-operand dtype oracle on every returned model) is (a) lists whose consumer lists overlap only PARTIALLY (the generator cannot emit them: correspondence T), (b) the readers of an insertion that is not the last of its list, and (c) the passage from nested GROUPS of consumer indices (proved: C03_horizontal_grouping_produces_nests) to nested consumer lists of the emitted instructions — in-place quantizations, disjoint insertions and insertions re-targeted onto an enclosing earlier one ARE proved for the last instruction of a list',
            'the dtype oracle derives the expected dtype of every operand from the recipe resolution (RecipeManager + quantization-side scope) only'],
    },
    'C04': {
        'steps': [{'script': 'corr_plan.py', 'timeout': 1500, 'timeout_thorough': 6000},
                  {'script': 'corr_arith.py', 'timeout': 1500, 'timeout_thorough': 6000},
                  {'script': 'oracle_static.py', 'timeout': 1500, 'timeout_thorough': 6000}],
        'required_theorems': ['C04_parameters_from_own_statistics',
                              'C04_same_scale_results_share_operand_parameters',
                              'C04_concat_operands_share_result_parameters',
                              'C04_bias_from_input_and_weight', 'C04_fixed_output_range',
                              'C04_fixed_range_literals', 'C04_per_channel_dimension',
                              'C04_activation_configs_are_per_tensor',
                              'C04_reference_parameters_wellformed'],
        'rule': GRAPH_RULE + STATIC_RULE,
        'trusted_base': COMMON_TB + GRAPH_TB + [
            'Flocq 4.1 and the Coq Reals for the numeric clause (axioms as reported)',
            'provenance terms are evaluated by the harness with the library\'s own numeric functions (tensor_zp_scale_from_min_max, uniform_quantize, symmetric_quantize_bias_tensor) whose bit-exact model is C17\'s; the independent oracle re-derives activation parameters in float64 from statistics'],
        'assumptions': GRAPH_ASSUME + [
            'statistics themselves (what the interpreter computed) are runtime data',
            'numeric clause proved on the ideal arithmetic; float32 implementation tied bit-exactly by correspondence A (C17)'],
    },
    'C05': {
        'steps': [{'script': 'corr_arith.py', 'timeout': 1500, 'timeout_thorough': 6000},
                  {'script': 'corr_graph.py', 'timeout': 1500, 'timeout_thorough': 6000},
                  {'script': 'oracle_static.py', 'timeout': 1500, 'timeout_thorough': 6000},
                  # the external-buffer (large model) storage format: the bytes selected by
                  # offset/size must be the constant the in-place form stores
                  {'script': 'corr_serial.py', 'timeout': 1500, 'timeout_thorough': 6000}],
        'required_theorems': ['C05_int4_stored_length', 'C05_int4_unpack_pack',
                              'C05_symmetric_constant_within_half_step',
                              'C05_asymmetric_constant_within_half_step',
                              'C05_bias_is_round_half_even', 'C05_float16_is_rne', 'C05_pack_pin'],
        'rule': GRAPH_RULE + STATIC_RULE,
        'trusted_base': COMMON_TB + GRAPH_TB + [
            'Flocq 4.1 and the Coq Reals (axioms as reported)',
            'numpy tobytes / little-endian layout of int8/16/32/64 is exercised by interface E (bytes of every rewritten buffer compared with an independent re-packing), not modelled'],
        'assumptions': [
            'decode-error theorems are about the ideal arithmetic (half a step, both symmetries); the float32-vs-real envelope is not proved: the decode oracle allows bound*(1+2^-10) + |x|*2^-22',
            'bias: |q - b/s| <= 1/2 + |b/s|*2^-22 unless saturating (the code multiplies by a float32 inverse scale)'],
    },
    'C15': {
        'steps': [{'script': 'corr_plan.py', 'timeout': 1500, 'timeout_thorough': 6000},
                  {'script': 'corr_graph.py', 'timeout': 1500, 'timeout_thorough': 6000},
                  {'script': 'oracle_static.py', 'timeout': 1500, 'timeout_thorough': 6000}],
        'required_theorems': ['C15_sharers_quantized_in_place_agree', 'C15_check_visits_every_group_and_member', 'C15_every_operand_is_listed_under_its_buffer', 'C15_compatible_users_agree', 'C15_write_is_consistent',
                              'C15_second_write_same_bytes'],
        'rule': GRAPH_RULE + STATIC_RULE,
        'trusted_base': COMMON_TB + GRAPH_TB,
        'assumptions': GRAPH_ASSUME + [
            'the loop of _check_buffer_sharing over buffer groups is hand-modelled (Model/Plan.v check_buffer_sharing_with) and tied by correspondence P (same RuntimeError / same acceptance); the pairwise predicate is regenerated',
            'value closeness for every consumer is C05 applied to the (constant, parameters) pair'],
    },
    'C08': {
        'steps': [{'script': 'corr_plan.py', 'timeout': 1500, 'timeout_thorough': 6000},
                  {'script': 'corr_graph.py', 'timeout': 1500, 'timeout_thorough': 6000},
                  {'script': 'oracle_c08.py', 'timeout': 1500, 'timeout_thorough': 6000}],
        'required_theorems': ['C08_shipped_recipes_resolve_to_materializable_configs',
                              'C08_opname_all_complete', 'C08_a8w8_covers_readme_table'],
        'rule': GRAPH_RULE + ('; C08 oracle: every generated model x every shipped recipe (5 default JSON files + '
                              'recipe.py helpers) through the public API: Quantizer(model, recipe), calibrate() per '
                              'signature on random inputs when need_calibration, quantize(); any exception is a '
                              'violation keyed by stage and cause; non-trivial = the pair returned a model; distinct = '
                              'distinct (model, recipe)'),
        'trusted_base': COMMON_TB + GRAPH_TB,
        'assumptions': GRAPH_ASSUME + [
            'proved: the recipe-dependent raise sites of plan generation are unreachable under every shipped default recipe for all graphs (finite decision table, vm_compute over the regenerated recipes/policy/registry); graph-dependent raise sites are covered by correspondence and the end-to-end oracle, not proved unreachable',
            'sample_advanced_usage_recipe.json is scoped to one sample model and is exercised by C12 (loads), not here'],
    },
    'C19': {
        'steps': [{'script': 'corr_graph.py', 'timeout': 1500, 'timeout_thorough': 6000},
                  {'script': 'corr_plan.py', 'timeout': 1500, 'timeout_thorough': 6000},
                  {'script': 'oracle_c19.py', 'timeout': 1500, 'timeout_thorough': 6000}],
        'required_theorems': ['C19_plan_of_a_subgraph_is_its_stand_alone_plan', 'C19_all_stages_as_if_the_subgraph_stood_alone', 'C19_instructions_are_generated_per_subgraph', 'C19_generated_and_transformed_as_if_alone', 'C19_step_is_local_to_its_subgraph', 'C19_opcode_table_only_grows',
                              'C19_tensor_info_is_per_subgraph',
                              'C19_result_depends_on_own_instructions_only',
                              'C19_subgraph_transformed_as_if_it_stood_alone',
                              'C19_same_instruction_same_effect',
                              'C19_other_subgraphs_steps_are_invisible'],
        'rule': GRAPH_RULE + ('; C19 oracle: generated 2-3-subgraph models (constants shared across subgraphs in half of '
                              'them) x shipped or random recipes x real or synthetic statistics; quantize(model) vs '
                              'quantize(extracted single-subgraph model i) for every i, compared structurally up to '
                              'opcode/buffer renumbering (constants by content); non-trivial = the subgraph was changed '
                              'by quantization; distinct = distinct canonical subgraph'),
        'trusted_base': COMMON_TB + GRAPH_TB,
        'assumptions': GRAPH_ASSUME + [
            'tensor names are unique model-wide (params_generator rejects the model otherwise; C19_unique_names_needed shows the map is not per-subgraph without it)',
            'constants shared between subgraphs with conflicting uses are rejected (C15/C08 F17-F18); those cases are counted and skipped',
            'whole performer runs ARE a theorem (simulation, Proofs/AloneProofs.v): subgraph k of transform_graph(m, tis) equals, up to the index an operator code has in the opcode table, subgraph 0 of transform_graph(model consisting of k alone, k\'s instructions); its hypotheses (opcode indices in range, instruction subgraph ids >= 0) are evaluated in Coq on every generated input',
            'plan generation, instruction generation and graph transformation are each PROVED per subgraph and composed (C19_all_stages_as_if_the_subgraph_stood_alone) under model-wide unique names and one parameter classification for both sides; the cross-subgraph buffer-sharing check between the stages is C15\'s and is covered by correspondence P/E2 and the oracle only'],
    },
    'C14': {
        'steps': [{'script': 'corr_plan.py', 'timeout': 1500, 'timeout_thorough': 6000},
                  {'script': 'corr_graph.py', 'timeout': 1500, 'timeout_thorough': 6000},
                  {'script': 'oracle_c14.py', 'timeout': 1500, 'timeout_thorough': 6000}],
        'required_theorems': ['C14_output_is_a_function_of_model_rule_list_and_statistics',
                              'C14_queries_leave_recipe_unchanged'],
        'rule': GRAPH_RULE + ('; C14 oracle: per case a fresh Quantizer (reference sha256) vs the same call repeated vs a '
                              'Quantizer with a random history of 1-4 other calls (rules, shipped recipe, calibrate, quantize, '
                              'validate, other Quantizer objects on other models) followed by load(target recipe JSON); caller '
                              'objects deep-compared around every call; a batch of outputs recomputed in fresh processes '
                              'under PYTHONHASHSEED=1,2(,3). non-trivial = quantize returned; distinct = distinct output hash'),
        'trusted_base': COMMON_TB + GRAPH_TB + [
            'absence of hidden state in the implementation (module-level caches, objects kept between calls) is what the oracle and correspondence P/E test; the model has none by construction'],
        'assumptions': GRAPH_ASSUME + [
            'in the model API functions are mathematical functions; the theorem is that the Quantizer state influences the pipeline only through the flattened rule list, for all histories',
            'determinism across processes / hash seeds is observed (oracle), not provable in Coq'],
    },
    'C16': {
        'steps': [{'script': 'corr_serial.py', 'timeout': 1500, 'timeout_thorough': 6000}],
        'required_theorems': ['C16_regions_aligned_in_bounds_disjoint',
                              'C16_regions_select_the_embedded_bytes', 'C16_model_pins'],
        'rule': ('generated models (35% tiny FC chains of widths 1..3 with optional bias and an optional EMPTY '
                 'constant: buffers of 0, 1, 2, 3, 4, 6... bytes; else the common graph generator) x shipped or random '
                 'recipes; the same quantization through the ordinary path and, via the hook '
                 'AI_EDGE_QUANTIZER_VERIF_LARGE_MODEL_THRESHOLD=-1, through the large-model path; offset/size table '
                 'read with the raw flatbuffer accessors; non-trivial = at least one external region; distinct = '
                 'distinct offset table'),
        'trusted_base': COMMON_TB + [
            'the flatbuffer encoder enters the model only as two byte strings of equal padded length (runtime assumption, checked on every case: the first region starts where the padded final flatbuffer ends)',
            'hook in /repo (guarded by AI_EDGE_QUANTIZER_VERIF): threshold read from the environment'],
        'assumptions': [
            'Model/Serial.v is hand-written against _serialize_large_model / _process_constant_map; their body shapes, the alignment constant 16 and the threshold 2^31-2^20 are regenerated and pinned',
            'interpreter behaviour (both serialisations load and compute identical outputs) is runtime: executed on every case'],
    },
    'C18': {
        'steps': [{'script': 'corr_valid.py', 'timeout': 1500, 'timeout_thorough': 6000}],
        'required_theorems': ['C18_every_name_in_exactly_one_group',
                              'C18_names_stay_unique_and_keep_their_value',
                              'C18_filing_succeeds_on_distinct_present_names',
                              'C18_filing_raises_on_missing_name', 'C18_mse_laws', 'C18_ratio_laws',
                              'C18_reported_value_reduces_the_per_input_values', 'C18_one_value_per_test_input'],
        'rule': ('generated models x shipped or random recipes x 1-3 test samples per signature x metric (mse / '
                 'median_diff_ratio): Quantizer.validate() and compare_model(model, model); every reported value '
                 'recomputed from two interpreter instances of the check (own dequantisation, float64 metric, mean over '
                 'samples; rtol 1e-4); per model four filing cases for correspondence V (plain, input name missing, '
                 'output name missing, extra name) + the real result dict. non-trivial = some tensor differs between '
                 'float and quantized model; distinct = distinct value table'),
        'trusted_base': COMMON_TB + [
            'the interpreters (tensor contents) are runtime oracles; metrics are recomputed in float64 and compared within rtol 1e-4 (numpy float32 reductions are not modelled bit-exactly)',
            'Flocq is not involved; the metric laws use the Coq Reals (axioms as reported)'],
        'assumptions': [
            'runtime temporaries of the interpreter (kernel scratch buffers, e.g. BatchMatMul_scratch_buffer) are not tensors of the model: their uninitialised contents are outside the property (they are still required to be filed exactly once)',
            'tensor names are unique within a subgraph (input contract)'],
    },
    'C06': {
        'steps': [{'script': 'corr_graph.py', 'timeout': 1500, 'timeout_thorough': 6000},
                  {'script': 'oracle_c06.py', 'timeout': 1500, 'timeout_thorough': 6000}],
        'required_theorems': ['C06_float_compute_run_preserves_meaning', 'C06_float_compute_run_is_an_interleaving', 'C06_plan_check_is_sound', 'C06_interleaved_graph_preserves_meaning', 'C06_interleaving_check_is_sound', 'C06_dequantize_insertion_preserves_meaning',
                              'C06_performer_dequantize_preserves_meaning',
                              'C06_weight_only_plans_dequantize', 'C06_dynamic_range_partial'],
        'rule': GRAPH_RULE + ('; C06 runtime oracle: generated models biased to weight ops x float-compute recipes '
                              '(shipped weight-only / dynamic recipes, uniform rules, per-op mixed rules incl. scopes '
                              'anchored to one op) x random inputs: reference model built from the INPUT model with '
                              'constants decoded from the OUTPUT model by an own decoder; end-to-end comparison when no '
                              'dynamic-range op, op-level re-execution of every op that reads a rewritten constant on the '
                              'activations the quantized model saw. non-trivial = some constant rewritten; distinct = '
                              'distinct output bytes'),
        'trusted_base': COMMON_TB + GRAPH_TB + [
            'LiteRT kernels are outside the model: they enter the theorems as an arbitrary kernel semantics K (function of op code, options and operand values) with the single hypothesis that DEQUANTIZE maps the stored constant to its dequantized value; for dynamic range an IDEALISED hybrid-kernel contract is a hypothesis (partial)'],
        'assumptions': GRAPH_ASSUME + [
            'runtime half validated by execution: weight-only/fp16 equal up to float32 rounding (rtol 1e-5); dynamic range within |dy_j| <= ||W_j||_1 * max|x| / 254 * 1.05 of the float op on dequantized constants',
            'the constant is read only by the listed consumers and is not a graph output (hypotheses of the performer-level theorem; what the instruction generator emits for a weight-only constant)'],
    },
    'C07': {
        'steps': [{'script': 'corr_arith.py', 'timeout': 1500, 'timeout_thorough': 6000},
                  {'script': 'oracle_c07.py', 'timeout': 1500, 'timeout_thorough': 6000}],
        'required_theorems': ['C07_calibrated_range_is_not_clipped', 'C07_codes_separate',
                              'C07_scale_is_positive_and_zero_exact', 'C07_fixed_ranges_cover_codomain'],
        'rule': ('generated models (30% deep FC/TANH/ADD/MUL chains of up to 10 ops, else 2-5 ops over all supported '
                 'ops; well-conditioned constants) x static recipes (shipped a8w8 / a16w8, or a uniform a8w8 / a8sw8 / '
                 'a16w8 rule) calibrated through Quantizer.calibrate on ONE random input per signature, then both models '
                 'run on that input with all tensors preserved; the ops are walked in execution order and the FIRST op '
                 'whose result is non-finite, constant while the float tensor spans > 16 steps, or off by more than '
                 '6 steps + 8% of the largest float activation magnitude is reported, keyed by (op, activation width, '
                 'weight granularity). non-trivial = tensor compared within tolerance; distinct = distinct (model, tensor, error)'),
        'trusted_base': COMMON_TB + [
            'LiteRT integer kernels are outside the repository and the model: their numerics are validated by execution only',
            'Flocq / Coq Reals for the parameter theorems (axioms as reported); float32 parameter code tied bit-exactly by correspondence A'],
        'assumptions': [
            'PARTIAL: proved = the quantizer\'s parameters cannot force clipping, collapse or a wrong zero (ideal arithmetic); the agreement of integer kernels with float execution is a runtime property validated on every generated case with the stated tolerance',
            'graphs containing RSQRT are excluded from the numeric clause after that op (unbounded error amplification near 0); degenerate constants (all-zero / 1e-6 / 1e4) are excluded (bias saturates int32: C05)'],
    },
}
