"""Per-property configuration of the check driver."""

COMMON_TB = [
    'Coq 8.16.1 kernel (coqc; thorough tier re-checks with coqchk -o); vm_compute used, native_compute not used',
    'translator tools/py2v (Python ast/json -> Gallina), fail-closed; output Gen/*.v regenerated from /repo on every run',
    'correspondence harness (generators, canonical J encoding, exception->enum map, coqc case evaluation)',
]

PROPS = {
    'C11': {
        'steps': [{'script': 'corr_recipe.py', 'timeout': 900,
                   'timeout_thorough': 3000}],
        'required_theorems': ['C11_get_is_last_applicable', 'C11_reachable_inv',
                              'C11_add_model'],
        'rule': ('histories over add/load/get/need_calibration: exhaustive over a '
                 '25-letter alphabet (2 regexes x 3 op selectors x 4 config/algorithm '
                 'choices + load) up to length 2 (quick) / 3 (thorough), each step '
                 'followed by 6 (op,scope) queries; plus random histories of length '
                 '4..12 over a richer alphabet (10 regexes, 12 ops, 16 configs incl. '
                 'unsupported/skip_checks/fp16/blockwise, 4 algorithm keys). '
                 'non-trivial = at least one query resolved to a rule and at least one '
                 'to none; distinct = distinct canonical output encoding'),
        'trusted_base': COMMON_TB + [
            "Python's re.search enters the model as the parameter `matches` (table computed by the harness)",
            'support check = translated checkers + hand model of the registry dispatch (Model/Check.v), compared with the implementation on every add/get of every history',
        ],
        'assumptions': [
            'operation names are members of TFLOperationName; algorithm keys are arbitrary strings',
            'the config-check policy is the default one (load_config_policy not called)',
        ],
    },
    'C12': {
        'steps': [{'script': 'corr_recipe.py', 'timeout': 900,
                   'timeout_thorough': 3000},
                  {'script': 'oracle_c12.py', 'timeout': 600}],
        'required_theorems': ['C12_roundtrip_partial', 'C12_shipped_files_load',
                              'C12_default_recipes_reexport',
                              'C12_noquant_config_refuted',
                              'C12_default_config_refuted'],
        'rule': ('R: the C11 histories (every RLoadSelf step is a json.dumps/loads round trip '
                 'into a fresh RecipeManager, compared step by step with the model); '
                 'F: every file under recipes/ loaded by the implementation vs Gen/Recipes.v '
                 'through Model/RecipeFile.v; oracle: save/reload of the final recipe of random '
                 'histories (recipe equality, resolution at 30 (op,scope) pairs). '
                 'non-trivial = recipe with >= 2 rules; distinct = distinct recipe JSON'),
        'trusted_base': COMMON_TB + [
            'json.dumps/json.loads and dataclasses.asdict are exercised by the harness, not modelled (to_dict is modelled as "None fields absent")',
        ],
        'assumptions': [
            'byte-identical quantize() output after reload follows from equal rule lists (C11 resolution is a function of the rule list) and the determinism of the pipeline (C14); it is additionally executed in the graph-level step when present',
            'C12_roundtrip_partial is guarded by `loadable` (exactly the guard the code imposes); the complement is the finding class F9a/F9b (KNOWN_FINDINGS.json)',
        ],
    },
    'C13': {
        'steps': [{'script': 'corr_lattice.py', 'timeout': 600}],
        'required_theorems': ['C13_accept_sound', 'C13_accept_iff_kernel',
                              'C13_reject_total', 'C13_star_consistent',
                              'C13_specific_refused'],
        'rule': ('the full finite lattice enumerated exhaustively on both sides: 2 algorithms x 24 '
                 'operator names x 5 activation settings x 24 weight settings x 2 precisions x 2 '
                 'explicit_dequantize = 23040 points (classification: not constructible / '
                 'ValueError / accepted), plus the unrolled policy table, the registry for 3x25 '
                 '(alg,op) and get_tensor_transformations on 480x4 inputs. non-trivial = accepted '
                 'points (distinct by construction)'),
        'trusted_base': COMMON_TB + [
            'Spec/KernelTypes.v: hand transcription of which (op, mode, widths) LiteRT kernels support; validated by execution in the runtime step',
        ],
        'assumptions': [
            'lattice as stated in the property (block-wise granularity, skip_checks and custom policies are outside it)',
            'runtime soundness of accepted pairs (interpreter prepares, outputs track float model) is validated by execution, not proved',
        ],
    },
}
