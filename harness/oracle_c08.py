"""Direct oracle for C08: every shipped recipe (JSON files under recipes/ and
the helpers of recipe.py), loaded unchanged through the PUBLIC API, calibrated
with Quantizer.calibrate() when it needs calibration, must quantize every
generated converter-normal-form model: no exception.  Also records, for the
Coq side, which (recipe, op) pairs resolve to which materializer.

argv: out.json [--replay file]"""
import collections
import copy
import inspect
import json
import os
import random
import sys
import time

sys.path.insert(0, os.path.dirname(os.path.abspath(__file__)))
from absl import logging as _l
_l.set_verbosity(_l.ERROR)

import numpy as np
from ai_edge_quantizer import quantizer
from ai_edge_quantizer import recipe as recipe_helpers
import gen_graph as gg
import gen_recipe as gr
import oracle_graph as og
import corr_graph as cg


def all_shipped():
  out = dict(gr.shipped())
  out.pop('sample_advanced_usage_recipe', None)   # scoped to one sample model's tensor names; loaded in C12
  for name, fn in inspect.getmembers(recipe_helpers, inspect.isfunction):
    if not name.startswith('_') and not inspect.signature(fn).parameters:
      out['recipe.' + name + '()'] = fn()
  return out


def classify(e, stage, mb=None):
  if stage == 'calibrate' and isinstance(e, RuntimeError) and 'tensor.data.raw != nullptr' in str(e):
    # Calibrator.calibrate ends every sample with interpreter.reset_all_variables(),
    # which fails while a subgraph holding a variable tensor has not been allocated
    return 'calibrate:variable-tensor-in-unallocated-subgraph'
  k = cg.classify_raise(e, og.read(mb) if mb is not None else None)
  return f'{stage}:{k}'


def run_one(mb, name, rec, rng):
  """returns None or (key, message)"""
  try:
    qt = quantizer.Quantizer(bytearray(mb), copy.deepcopy(rec))
  except Exception as e:  # pylint: disable=broad-except
    return classify(e, 'load'), f'{type(e).__name__}: {str(e)[:200]}'
  stats = None
  if qt.need_calibration:
    data = gg.random_inputs(mb, rng, rng.choice([1, 2]))
    try:
      for key, samples in data.items():
        stats = qt.calibrate(samples, key, previous_calibration_result=stats)
    except Exception as e:  # pylint: disable=broad-except
      return classify(e, 'calibrate', mb), f'{type(e).__name__}: {str(e)[:200]}'
  try:
    res = qt.quantize(stats)
    og.read(res.quantized_model)
  except Exception as e:  # pylint: disable=broad-except
    return classify(e, 'quantize', mb), f'{type(e).__name__}: {str(e)[:200]}'
  return None


def main():
  out_path = sys.argv[1]
  tier = os.environ.get('VERIF_TIER', 'quick')
  seed = int(os.environ.get('VERIF_SEED', '0'))
  rng = random.Random(seed * 15485863 + 5)
  t0 = time.time()
  ship = all_shipped()
  viol = []
  dist = collections.Counter()
  nontrivial = set()
  samples = []
  cases = []
  if '--replay' in sys.argv:
    rp = json.load(open(sys.argv[sys.argv.index('--replay') + 1]))
    for v in rp.get('violations', []) + ([rp] if 'input' in rp else []):
      i = v.get('input', {})
      if i.get('model_hex') and i.get('recipe') in ship:
        cases.append((bytes.fromhex(i['model_hex']), i['recipe']))
  # corpus first
  cdir = os.path.join(os.path.dirname(os.path.dirname(os.path.abspath(__file__))), 'corpus', 'C08')
  if os.path.isdir(cdir):
    for f in sorted(os.listdir(cdir)):
      c = json.load(open(os.path.join(cdir, f)))
      if c.get('model_hex') and c.get('recipe') in ship:
        cases.append((bytes.fromhex(c['model_hex']), c['recipe']))
  n_models = 1500 if tier == 'thorough' else 120
  if '--replay' not in sys.argv:
    for k in range(n_models):
      # every 8th model: several ops the quantizer does not know that share one constant
      ow = (['MAXIMUM'] * 4 + gg.SUPPORTED) if k % 8 == 5 else None
      mb, info = gg.gen_model(rng, max_ops=rng.choice([3, 5, 8, 10]), op_weights=ow)
      for name in ship:
        cases.append((mb, name))
  for mb, name in cases:
    dist['cases'] += 1
    dist['recipe=' + name] += 1
    r = run_one(mb, name, ship[name], rng)
    if r is None:
      dist['returned'] += 1
      nontrivial.add((hash(mb), name))
      if len(samples) < 3:
        m = og.read(mb)
        samples.append({'recipe': name, 'subgraphs': len(m.subgraphs),
                        'ops': [len(g.operators) for g in m.subgraphs]})
      continue
    key, msg = r
    dist['raises:' + key] += 1
    viol.append({'key': 'C08:' + key, 'what': f'shipped recipe {name} rejected a converter-normal-form '
                 f'model: {msg}', 'input': {'recipe': name,
                                            'model_hex': mb.hex() if len(mb) < 40000 else None}})
  out = {
      'interface': 'oracle:C08', 'evaluations': dist['cases'],
      'distinct_nontrivial': len(nontrivial), 'n_mismatches': 0, 'mismatches': [],
      'oracle_violations': cg.dedup(viol, 2),
      'violation_counts': dict(collections.Counter(v['key'] for v in viol)),
      'distribution': dict(dist), 'samples': samples, 'recipes': sorted(ship),
      'wall_s': time.time() - t0,
  }
  with open(out_path, 'w') as f:
    json.dump(out, f, indent=1, default=str)
  print(f'oracle C08: {dist["cases"]} (model, shipped recipe) pairs, violations '
        f'{dict(collections.Counter(v["key"] for v in viol))}, {time.time() - t0:.0f}s')


if __name__ == '__main__':
  main()
