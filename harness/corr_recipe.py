"""Correspondence R: RecipeManager vs Model/Recipe.v (C11, C12, part of C13).

Run with /venv/bin/python, PYTHONPATH=/repo.  Writes a result JSON.
"""
import itertools
import json
import os
import random
import re
import sys
import time

sys.path.insert(0, os.path.dirname(os.path.abspath(__file__)))
import vlib
from absl import logging as _absl_logging
_absl_logging.set_verbosity(_absl_logging.ERROR)

from ai_edge_quantizer import qtyping
from ai_edge_quantizer import recipe_manager
from ai_edge_quantizer import algorithm_manager

OPS = list(qtyping.TFLOperationName)
PRECS = list(qtyping.ComputePrecision)
DTYPES = list(qtyping.TensorDataType)
GRANS = list(qtyping.QuantGranularity)
ALGS = [a.value for a in algorithm_manager.AlgorithmName]
T = qtyping.TensorQuantizationConfig
O = qtyping.OpQuantizationConfig

EXN = {'ValueError': 1, 'AttributeError': 2, 'KeyError': 3, 'RuntimeError': 4,
       'TypeError': 5, 'IndexError': 6}


def exn_code(e):
  return EXN.get(type(e).__name__, 7)


def op_code(op):
  return OPS.index(qtyping.TFLOperationName(op))


def j_tcfg(t):
  return [t.num_bits, bool(t.symmetric),
          GRANS.index(qtyping.QuantGranularity(t.granularity)),
          DTYPES.index(qtyping.TensorDataType(t.dtype)), t.block_size]


def j_ocfg(c):
  return [vlib.jopt(c.activation_tensor_config, j_tcfg),
          vlib.jopt(c.weight_tensor_config, j_tcfg),
          PRECS.index(qtyping.ComputePrecision(c.compute_precision)),
          bool(c.explicit_dequantize), bool(c.skip_checks)]


class Intern:

  def __init__(self):
    self.d = {}

  def __call__(self, s):
    return self.d.setdefault(s, len(self.d))


def j_akey(alg, other):
  alg = str(alg.value) if hasattr(alg, 'value') else alg
  if alg in ALGS:
    return [0, ALGS.index(alg)]
  return [1, other(alg)]


# ---- Coq literal writers ----
def c_tcfg(t):
  ctors = ('Mk_tcfg', GRANS, DTYPES)
  g = 'Gr_' + qtyping.QuantGranularity(t.granularity).name
  d = 'Dt_' + qtyping.TensorDataType(t.dtype).name
  return (f'(Mk_tcfg {vlib.zlit(t.num_bits)} {vlib.coq_bool(t.symmetric)} {g} '
          f'{d} {vlib.zlit(t.block_size)})')


def c_ocfg(c):
  p = 'Prec_' + qtyping.ComputePrecision(c.compute_precision).name
  return (f'(Mk_ocfg {vlib.coq_opt(c.activation_tensor_config, c_tcfg)} '
          f'{vlib.coq_opt(c.weight_tensor_config, c_tcfg)} {p} '
          f'{vlib.coq_bool(c.explicit_dequantize)} '
          f'{vlib.coq_bool(c.skip_checks)})')


def c_op(op):
  return 'Op_' + qtyping.TFLOperationName(op).name


def c_akey(alg, other):
  alg = str(alg.value) if hasattr(alg, 'value') else alg
  if alg in ALGS:
    name = algorithm_manager.AlgorithmName(alg).name
    return f'(AK Alg_{name})'
  return f'(AKother {other(alg)})'


# ---- alphabets ----
def configs():
  W8c = T(8, True, qtyping.QuantGranularity.CHANNELWISE)
  W8t = T(8, True)
  W4c = T(4, True, qtyping.QuantGranularity.CHANNELWISE)
  W8a = T(8, False, qtyping.QuantGranularity.CHANNELWISE)
  A8 = T(8, False)
  A16 = T(16, True)
  F16 = T(16, dtype=qtyping.TensorDataType.FLOAT)
  I = qtyping.ComputePrecision.INTEGER
  F = qtyping.ComputePrecision.FLOAT
  return {
      'srq_a8w8': O(A8, W8c, I),
      'srq_a16w8': O(A16, W8t, I),
      'srq_a16w4': O(A16, W4c, I),
      'drq_w8': O(None, W8c, I),
      'drq_w4': O(None, W4c, I),
      'wo_w8': O(None, W8a, F, True),
      'wo_w4sym': O(None, W4c, F, True),
      'bad_asym_drq': O(None, W8a, I),              # not in policy
      'bad_float_noexpl': O(None, W8c, F, False),   # not in policy
      'bad_w16': O(None, T(16, True), I),
      'fp16': O(None, F16, F, True),
      'fp16_noexpl': O(None, F16, F, False),
      'default': O(),
      'skip_bad': O(None, W8a, I, False, True),     # skip_checks
      'blockwise': O(None, T(4, True, qtyping.QuantGranularity.BLOCKWISE,
                             block_size=32), F, True),
      # non-blockwise granularity WITH a block size: equal to no policy entry (a
      # '*' rule lets it in; it must survive the JSON round trip unchanged)
      'chan_bs32': O(None, T(8, True, qtyping.QuantGranularity.CHANNELWISE, block_size=32), I),
      'skip_tens_bs16': O(None, T(8, True, qtyping.QuantGranularity.TENSORWISE, block_size=16), I, False, True),
      'none': None,
  }


SMALL_REGEX = ['.*', 'dense']
SMALL_SCOPES = ['dense/MatMul;', 'conv/out;']
SMALL_OPS = ['*', 'FULLY_CONNECTED', 'CONV_2D']
RICH_REGEX = ['.*', 'dense', '^dense', 'MatMul;$', 'conv|dense', 'out;', 'x',
              '^$', 'dense/MatMul;', r'\d+']
RICH_SCOPES = ['dense/MatMul;', 'conv/out;', 'x;y;', '', 'block1/dense_2;',
               'Dense/matmul;']
RICH_OPS = ['*', 'FULLY_CONNECTED', 'CONV_2D', 'ADD', 'EMBEDDING_LOOKUP',
            'INPUT', 'OUTPUT', 'BATCH_MATMUL', 'SOFTMAX', 'CUSTOM_OP',
            'DEPTHWISE_CONV_2D', 'TANH']


def small_alphabet():
  cfg = configs()
  choices = [('srq_a8w8', ALGS[1]), ('bad_asym_drq', ALGS[1]),
             ('fp16', ALGS[2]), ('none', ALGS[0])]
  adds = []
  for rg in SMALL_REGEX:
    for op in SMALL_OPS:
      for cname, alg in choices:
        adds.append(('add', rg, op, cname, alg))
  return adds + [('load',)]


def run_impl(ops, queries_each_step=None):
  """ops: list of abstract ops. Returns (outs J list, final state J, regexes,
  scopes, others, expanded op list)."""
  cfgs = configs()
  rm = recipe_manager.RecipeManager()
  rid, sid, oid = Intern(), Intern(), Intern()
  outs = []
  expanded = []

  def do(op):
    nonlocal rm
    expanded.append(op)
    kind = op[0]
    if kind == 'add':
      _, rg, opn, cname, alg = op
      rid(rg)
      try:
        rm.add_quantization_config(rg, opn, cfgs[cname], alg)
        outs.append([0])
      except Exception as e:  # pylint: disable=broad-except
        outs.append([1, exn_code(e)])
    elif kind == 'load':
      new = recipe_manager.RecipeManager()
      try:
        new.load_quantization_recipe(
            json.loads(json.dumps(rm.get_quantization_recipe())))
        rm = new
        outs.append([0])
      except Exception as e:  # pylint: disable=broad-except
        outs.append([1, exn_code(e)])
    elif kind == 'loadempty':
      # load([]) into the SAME, already used manager: it must forget every rule
      try:
        rm.load_quantization_recipe([])
        outs.append([0])
      except Exception as e:  # pylint: disable=broad-except
        outs.append([1, exn_code(e)])
    elif kind == 'get':
      _, opn, scope = op
      sid(scope)
      a, c = rm.get_quantization_configs(opn, scope)
      outs.append([2, j_akey(a, oid), j_ocfg(c)])
    elif kind == 'needcal':
      outs.append([3, bool(rm.need_calibration())])

  for op in ops:
    do(op)
    if queries_each_step and op[0] in ('add', 'load', 'loadempty'):
      for q in queries_each_step:
        do(q)
  state = []
  for rg, rules in rm._scope_configs.items():  # pylint: disable=protected-access
    state.append([rid(rg), [[rid(r.regex), op_code(r.operation),
                              j_akey(r.algorithm_key, oid), j_ocfg(r.op_config)]
                             for r in rules]])
  final_rules = [(rg, str(getattr(r.operation, 'value', r.operation)),
                  str(getattr(r.algorithm_key, 'value', r.algorithm_key)))
                 for rg, rules in rm._scope_configs.items() for r in rules]  # pylint: disable=protected-access
  run_impl.final_rules = final_rules
  return outs, state, rid, sid, oid, expanded


def oracle(expanded, outs, final_rules=None):
  """Direct oracle for C11, independent of the library's manager and of the
  Coq model: replays the history on the documented model (ordered scopes,
  replace-in-place, '*' resets, last applicable rule wins) and compares every
  query.  Applicability uses the library's own support check and re.search,
  as the property states."""
  cfgs = configs()
  scopes = {}   # regex -> list of (op, alg, cfg); dict keeps first-insertion order
  bad = []
  for op, out in zip(expanded, outs):
    if op[0] == 'add':
      _, rg, opn, cname, alg = op
      cfg = cfgs[cname] if cfgs[cname] is not None else O()
      accepted = True
      if opn != '*' and alg != 'no_quantize':
        try:
          algorithm_manager.check_op_quantization_config(alg, opn, cfg)
        except ValueError:
          accepted = False
      if accepted != (out == [0]):
        bad.append({'key': 'C11:add-acceptance', 'what': 'add accepted/refused '
                    'contrary to the support check', 'input': expanded})
      if not accepted:
        continue
      if opn == '*' or rg not in scopes:
        scopes[rg] = [(opn, alg, cfg)]
      else:
        rules = scopes[rg]
        idx = [i for i, r in enumerate(rules) if r[0] == opn]
        if idx:
          rules[idx[0]] = (opn, alg, cfg)
        else:
          rules.append((opn, alg, cfg))
    elif op[0] == 'loadempty':
      scopes.clear()
    elif op[0] == 'load':
      if out != [0]:
        continue   # failed load leaves the manager unchanged in this harness
      # a successful load must not change resolution (C12); rebuild nothing
      # except dropping configs of no_quantize rules, which never matter.
      for rg in scopes:
        scopes[rg] = [(o, a, (c if a != 'no_quantize' else O()))
                      for (o, a, c) in scopes[rg]]
    elif op[0] == 'get':
      _, target, scope = op
      res = ('no_quantize', O())
      for rg, rules in scopes.items():
        if re.search(rg, scope):
          for (o, a, c) in rules:
            if o != '*' and o != target:
              continue
            if a != 'no_quantize':
              try:
                algorithm_manager.check_op_quantization_config(a, target, c)
              except ValueError:
                continue
            res = (a, c)
      oid = Intern()
      exp = [2, j_akey(res[0], lambda s: 0), j_ocfg(res[1])]
      got = [2, [out[1][0], out[1][1] if out[1][0] == 0 else 0], out[2]]
      if exp != got:
        bad.append({'key': 'C11:resolution', 'what':
                    f'get({target!r},{scope!r}) != last applicable rule',
                    'input': expanded, 'expected': exp, 'got': got})
  if final_rules is not None:
    doc = [(rg, str(o), str(getattr(a, 'value', a))) for rg, rules in
           scopes.items() for (o, a, _) in rules]
    if doc != final_rules:
      bad.append({'key': 'C11:rule-list', 'what': 'rule list after the history '
                  'differs from the documented edit model (order of first '
                  'insertion / replace in place / * reset)',
                  'input': expanded, 'expected': doc, 'got': final_rules})
  return bad


def coq_case(expanded, rid, sid, oid):
  cfgs = configs()
  items = []
  for op in expanded:
    if op[0] == 'add':
      _, rg, opn, cname, alg = op
      c = cfgs[cname]
      items.append(f'RAdd {rid(rg)} {c_op(opn)} {vlib.coq_opt(c, c_ocfg)} '
                   f'{c_akey(alg, oid)}')
    elif op[0] == 'load':
      items.append('RLoadSelf')
    elif op[0] == 'loadempty':
      items.append('RLoadEmpty')
    elif op[0] == 'get':
      items.append(f'RGet {c_op(op[1])} {sid(op[2])}')
    else:
      items.append('RNeedCal')
  pairs = []
  for rg, r in rid.d.items():
    for sc, s in sid.d.items():
      if re.search(rg, sc):
        pairs.append(f'({r}, {s})')
  return (vlib.coq_list(items), vlib.coq_list(pairs))


PRELUDE = '''From VF Require Import Base.Prelude Gen.Enums Gen.Configs Gen.Checks Model.Recipe Model.Check.
Open Scope Z_scope.
Definition mk_matches (t : list (Z * Z)) (r s : Z) : bool :=
  existsb (fun p => Z.eqb (fst p) r && Z.eqb (snd p) s) t.
Definition run_case (c : list rop * list (Z * Z)) : list Z :=
  let '(s, outs) := run check (mk_matches (snd c)) ocfg_post_init init (fst c) in
  flat (JL [Jlist J_rout outs; J_state s]).
'''


def gen_histories(rng, tier, n_random):
  """Yield (label, ops, queries_each_step)."""
  small = small_alphabet()
  queries = [('get', op, sc) for op in ('FULLY_CONNECTED', 'CONV_2D', 'ADD')
             for sc in SMALL_SCOPES]
  hist = []
  maxlen = 3 if tier == 'thorough' else 2
  for n in range(1, maxlen + 1):
    for h in itertools.product(small, repeat=n):
      # prefixes are covered by querying after each step: keep only maximal
      if n == maxlen:
        hist.append(('exh', list(h), queries))
  if maxlen < 3:
    # quick tier: exhaustive length 3 over a reduced alphabet that forces
    # same-scope collisions (replace in place, '*' reset, append)
    reduced = [('add', 'dense', op, c, alg) for op in SMALL_OPS
               for (c, alg) in (('drq_w8', ALGS[1]), ('none', ALGS[0]))]
    reduced.append(('load',))
    for h in itertools.product(reduced, repeat=3):
      hist.append(('exh', list(h), queries))
  cfgnames = list(configs().keys())
  good = ['srq_a8w8', 'drq_w8', 'wo_w8', 'fp16', 'none', 'skip_bad']
  for _ in range(n_random):
    n = rng.randint(4, 12)
    ops = []
    # per-history sub-alphabets: small ones force collisions
    rgs = rng.sample(RICH_REGEX, rng.randint(1, 3))
    opsel = ['*'] + rng.sample(RICH_OPS[1:], rng.randint(1, 4))
    cfgsel = rng.sample(cfgnames, 3) + rng.sample(good, 3)
    for _ in range(n):
      r = rng.random()
      if r < 0.7:
        ops.append(('add', rng.choice(rgs), rng.choice(opsel),
                    rng.choice(cfgsel),
                    rng.choice(ALGS * 3 + ['bogus_alg'])))
      elif r < 0.78:
        ops.append(('load',))
      elif r < 0.81:
        ops.append(('loadempty',))
      elif r < 0.97:
        ops.append(('get', rng.choice(RICH_OPS[1:]), rng.choice(RICH_SCOPES)))
      else:
        ops.append(('needcal',))
    ops += [('get', o, s) for o in (opsel[1:] + rng.sample(RICH_OPS[1:], 2))
            for s in rng.sample(RICH_SCOPES, 2)]
    ops.append(('needcal',))
    hist.append(('rnd', ops, None))
  return hist


def main():
  out_path = sys.argv[1]
  tier = os.environ.get('VERIF_TIER', 'quick')
  seed = int(os.environ.get('VERIF_SEED', '0'))
  rng = random.Random(seed)
  t0 = time.time()
  n_random = 3000 if tier == 'thorough' else 400
  hist = gen_histories(rng, tier, n_random)
  expected = []
  cases = []
  oracle_violations = []
  nontrivial = set()
  dist = {'exh': 0, 'rnd': 0, 'steps': 0, 'errors': 0, 'gets': 0,
          'gets_quantized': 0}
  for label, ops, q in hist:
    outs, state, rid, sid, oid, expanded = run_impl(ops, q)
    exp = vlib.flat([outs, state])
    expected.append(exp)
    oracle_violations.extend(oracle(expanded, outs, run_impl.final_rules)[:1])
    cases.append(coq_case(expanded, rid, sid, oid))
    dist[label] += 1
    dist['steps'] += len(expanded)
    errs = sum(1 for o in outs if o[0] == 1)
    gets = [o for o in outs if o[0] == 2]
    quant = sum(1 for o in gets if o[1] != [0, 0])
    dist['errors'] += errs
    dist['gets'] += len(gets)
    dist['gets_quantized'] += quant
    # non-trivial: at least one query resolved to a rule and one to none
    if quant and quant < len(gets):
      nontrivial.add(tuple(exp))
  shards = vlib.shard(list(range(len(cases))), 400)
  files = []
  for si, idxs in enumerate(shards):
    body = ';\n'.join(f'({cases[i][0]}, {cases[i][1]})' for i in idxs)
    text = (PRELUDE + 'Definition cases : list (list rop * list (Z * Z)) := [\n'
            + body + '\n].\nEval vm_compute in (map run_case cases).\n')
    files.append((f'recipe_{si}', text))
  results = vlib.run_case_files(files, jobs=int(os.environ.get('VERIF_JOBS',
                                                               '12')))
  mismatches = []
  for si, idxs in enumerate(shards):
    got = results[f'recipe_{si}']
    if len(got) != len(idxs):
      raise RuntimeError('case count mismatch from coqc')
    for k, i in enumerate(idxs):
      if got[k] != expected[i]:
        mismatches.append({
            'case': i, 'label': hist[i][0], 'ops': hist[i][1],
            'impl': vlib.unflat(expected[i]), 'model': vlib.unflat(got[k])})
  res = {
      'interface': 'R',
      'evaluations': len(cases),
      'distinct_nontrivial': len(nontrivial),
      'mismatches': mismatches[:20],
      'n_mismatches': len(mismatches),
      'oracle_violations': oracle_violations[:10],
      'oracle_checked': len(cases),
      'distribution': dist,
      'samples': [{'ops': hist[i][1][:8], 'impl_out': vlib.unflat(expected[i])[0][:8]}
                  for i in (0, len(hist) // 2, len(hist) - 1)],
      'exhaustive_small_scope': {
          'alphabet': len(small_alphabet()),
          'max_len': 3 if tier == 'thorough' else 2,
          'histories': dist['exh']},
      'wall_s': time.time() - t0,
  }
  with open(out_path, 'w') as f:
    json.dump(res, f, indent=1, default=str)
  print(f'corr R: {len(cases)} cases, {len(mismatches)} mismatches, '
        f'{time.time() - t0:.1f}s')


if __name__ == '__main__':
  main()
