"""Correspondence K (Calibrator / Quantizer.calibrate vs Model/Calib.v) and the
direct oracles of C09 (exact, order-faithful, resumable statistics) and C10
(calibration and quantization select the same ops; statistics never missing).
"""
import collections
import copy
import json
import os
import random
import re
import sys
import time

sys.path.insert(0, os.path.dirname(os.path.abspath(__file__)))
import vlib
from absl import logging as _l
_l.set_verbosity(_l.ERROR)

import numpy as np
from ai_edge_litert import interpreter as tfl
from ai_edge_quantizer import calibrator
from ai_edge_quantizer import params_generator
from ai_edge_quantizer import quantizer
from ai_edge_quantizer.utils import tfl_flatbuffer_utils as tfu
import gen_graph as gg
import gen_recipe as gr
import oracle_graph as og
import corr_recipe as cr
import corr_graph as cg
import corr_plan as cp


def per_sample_minmax(mb, key, samples):
  """[ {tensor name: (min, max)} per sample ] from the check's own interpreter."""
  m = og.read(mb)
  it = tfl.Interpreter(
      model_content=bytes(mb),
      experimental_op_resolver_type=tfl.OpResolverType.BUILTIN_WITHOUT_DEFAULT_DELEGATES,
      experimental_preserve_all_tensors=True)
  it.allocate_tensors()
  sd = [s for s in m.signatureDefs if s.signatureKey.decode() == key][0]
  sgi = int(sd.subgraphIndex)
  g = m.subgraphs[sgi]
  runner = it.get_signature_runner(key)
  out = []
  for sample in samples:
    runner(**sample)
    d = {}
    for ti, t in enumerate(g.tensors):
      if og.is_const(m, t):
        continue
      try:
        v = it.get_tensor(ti, sgi)
      except ValueError:
        continue
      d[og.tname(t)] = (np.min(v, axis=None, keepdims=True),
                        np.max(v, axis=None, keepdims=True))
    out.append(d)
    it.reset_all_variables()
  return out, sgi


def ema(old, new):
  """documented update: 0.95 on the old value, first sample initialises"""
  return {'min': 0.95 * old['min'] + (1.0 - 0.95) * new['min'],
          'max': 0.95 * old['max'] + (1.0 - 0.95) * new['max']}


class QEval:

  def __init__(self, ctx, m, prev, samples):
    self.ctx, self.m, self.prev, self.samples = ctx, m, prev, samples
    self.ev = cp.TermEval(ctx, m, {})
    self.names = {}
    for g in m.subgraphs:
      for t in g.tensors:
        self.names[tuple(self.ev._key(og.tname(t)))] = og.tname(t)  # pylint: disable=protected-access

  def name(self, jn):
    return self.names[tuple([jn[0]] + list(jn[1]))]

  def val(self, jq):
    tag = jq[0]
    if tag == 0:
      return {}
    if tag == 1:
      d = self.ev.data(jq[1])
      qd = jq[2][0] if jq[2] else None
      dims = None if qd is None else tuple(i for i in range(d.ndim) if i != qd)
      return {'min': np.min(d, axis=dims, keepdims=True),
              'max': np.max(d, axis=dims, keepdims=True)}
    if tag == 2:
      return self.prev[self.name(jq[1])]
    if tag == 3:
      mn, mx = self.samples[jq[2]][self.name(jq[1])]
      return {'min': mn, 'max': mx}
    old = self.val(jq[1])     # `if not qsv: return new_qsv`
    return self.val(jq[2]) if not old else ema(old, self.val(jq[2]))


def bits_equal(a, b):
  try:
    if set(a.keys()) != set(b.keys()):
      return False
    for k in a:
      x, y = np.asarray(a[k]), np.asarray(b[k])
      if x.shape != y.shape or x.dtype != y.dtype or x.tobytes() != y.tobytes():
        return False
    return True
  except Exception:  # pylint: disable=broad-except
    return False


PRELUDE = '''From VF Require Import Base.Prelude Gen.Enums Gen.Configs Gen.Scopes Model.Recipe Model.Check Model.Graph Model.Plan Model.Calib.
Open Scope Z_scope.
Definition mk_matches (t : list (Z * Z)) (r s : Z) : bool :=
  existsb (fun p => Z.eqb (fst p) r && Z.eqb (snd p) s) t.
Definition mk_scope_id (t : list ((Z * list stok) * Z)) (gi : Z) (toks : list stok) : Z :=
  match find (fun e => Z.eqb (fst (fst e)) gi && list_eqb stok_eqb (snd (fst e)) toks) t with
  | Some e => snd e | None => -1 end.
Definition case_t : Type :=
  model * state * list (Z * Z) * list ((Z * list stok) * Z) * list (list bool)
  * (Z * option (list name_t) * Z).
Definition run_case (c : case_t) : list Z :=
  let '(m, rules, mt, sct, adjy, (sg, prev, n)) := c in
  flat (JL [Jres J_qstore (calibrate (mk_matches mt) rules (m_buffers m) (mk_scope_id sct) m adjy sg prev n);
            Jres (Jlist JZ) (selected_cal (mk_matches mt) rules (mk_scope_id sct) m adjy sg)]).
'''


def scope_table(m, sid, calib_side=True):
  """token list -> scope string id, built with the library's own scope
  function of the given side (so that a divergence between the two sides
  shows up against the model, which uses the translated functions)."""
  rows = []
  cal = calibrator.Calibrator._get_op_scope  # pylint: disable=protected-access
  for gi, g in enumerate(m.subgraphs):
    outs_lists = [list(o.outputs) for o in g.operators] + [list(g.inputs), []]
    for outs in outs_lists:
      class _Op:
        outputs = outs
      sc = cal(None, _Op, g.tensors)
      toks = []
      for x in outs:
        if int(x) != -1:
          toks += [f'TName {vlib.zlit(int(x))}', 'TLit 59']
      rows.append(f'(({gi}, {vlib.coq_list(toks)}), {sid(sc)})')
  return rows


def selection_sets(qt, m):
  """ops selected (non no_quantize) by the calibration-side scope and by the
  quantization-side scope, per subgraph, using the library's own functions."""
  rm = qt._recipe_manager  # pylint: disable=protected-access
  cal = calibrator.Calibrator._get_op_scope  # pylint: disable=protected-access
  pgs = params_generator.ParamsGenerator._get_op_scope  # pylint: disable=protected-access
  res = []
  for gi, g in enumerate(m.subgraphs):
    a, b = [], []
    ops = [(i, o, None) for i, o in enumerate(g.operators)]
    for i, o, _ in ops:
      code = m.operatorCodes[o.opcodeIndex].builtinCode
      key = tfu.TFL_OP_CODE_TO_NAME.get(code)
      if key is None:
        continue
      k1, _ = rm.get_quantization_configs(key, cal(None, o, g.tensors))
      k2, _ = rm.get_quantization_configs(key, pgs(None, o, g.tensors))
      if str(getattr(k1, 'value', k1)) != 'no_quantize':
        a.append(i)
      if str(getattr(k2, 'value', k2)) != 'no_quantize':
        b.append(i)
    # the virtual INPUT / OUTPUT operators (one result per graph input / none)
    for vi, io in enumerate(tfu.get_subgraph_input_output_operators(g)):
      k1, _ = rm.get_quantization_configs(io.op_key, cal(None, io, g.tensors))
      k2, _ = rm.get_quantization_configs(io.op_key, pgs(None, io, g.tensors))
      if str(getattr(k1, 'value', k1)) != 'no_quantize':
        a.append(-1)
      if str(getattr(k2, 'value', k2)) != 'no_quantize':
        b.append(-1)
    res.append((a, b))
  return res


def regex_rules(rng, mb):
  """rules biased towards anchored / ';'-containing regexes (C10)"""
  scopes = gr.model_scopes(mb)
  # scopes of the virtual INPUT operators: all graph input names
  m0 = og.read(mb)
  for g in m0.subgraphs:
    scopes.append(('INPUT', ''.join(og.tname(g.tensors[x]) + ';' for x in g.inputs)))
  multi = [x for x in scopes if x[1].count(';') >= 2]
  ncfg = gr.named_configs()
  present = sorted(set(k for k, _ in scopes if k))
  rules = []
  for _ in range(rng.choice([1, 2, 3])):
    # ops with several results (SPLIT, INPUT of a multi-input graph) are
    # over-sampled: their scope is the concatenation of ALL result names
    k, sc = rng.choice(multi) if multi and rng.random() < 0.4 else rng.choice(scopes)
    names = [x for x in sc.rstrip(';').split(';') if x] or ['']
    name = rng.choice(names)
    form = rng.choice(['exact$', 'exact;$', '^exact;$', 'prefix', 'name;', '.*', 'name'])
    regex = {'exact$': re.escape(name) + '$', 'exact;$': re.escape(name) + ';$',
             '^exact;$': '^' + re.escape(sc) + '$',
             'prefix': re.escape(name[:max(1, len(name) // 2)]),
             'name;': re.escape(name) + ';', '.*': '.*', 'name': re.escape(name)}[form]
    opsel = rng.choice(['*', '*', k or '*'] + present)
    cname = rng.choice(gr.STATIC + ['nq'])
    rules.append((regex, opsel, ncfg[cname][0], cname))
  if not any(r[3] in gr.STATIC for r in rules):
    rules.append(('.*', '*', gr.MM, 'a8w8'))
  return rules


def main():
  out_path = sys.argv[1]
  tier = os.environ.get('VERIF_TIER', 'quick')
  seed = int(os.environ.get('VERIF_SEED', '0'))
  rng = random.Random(seed * 1299709 + 5)
  t0 = time.time()
  n_models = 1500 if tier == 'thorough' else 120
  ship = gr.shipped()
  cases = []
  viol = []
  dist = collections.Counter()
  nontrivial = set()
  samples_out = []
  for mi in range(n_models):
    if mi % 8 == 5:
      # directed: a STATEFUL float op (RNN with a variable tensor) in front of quantized ops:
      # the state must be reset between samples exactly as the reference run does
      mb, info = gg.gen_model(rng, n_subgraphs=1, max_ops=rng.choice([3, 4, 5]),
                              op_weights=['RNN', 'RNN', 'FULLY_CONNECTED', 'TANH', 'ADD', 'MUL'])
      dist['directed:stateful-op'] += 1
    elif mi % 8 == 2:
      # directed: bias-less FULLY_CONNECTED ops (an ABSENT operand, index -1) selected on their
      # own, among ops the recipe leaves alone and whose tensors close the tensor table
      mb, info = gg.biasless_fc_model(rng)
      dist['directed:absent-operand'] += 1
    else:
      mb, info = gg.gen_model(rng, max_ops=rng.choice([3, 5, 8]))
    m = og.read(mb)
    qt = quantizer.Quantizer(bytearray(mb))
    if mi % 8 == 2:
      desc = gr.apply_rules(qt, [('.*', 'FULLY_CONNECTED', gr.named_configs()['a8w8'][0], rng.choice(['a8w8', 'a16w8']))])
    elif rng.random() < 0.35:
      desc = rng.choice(['default_a8w8_recipe', 'default_a16w8_recipe'])
      qt.load_quantization_recipe(copy.deepcopy(ship[desc]))
    else:
      desc = gr.apply_rules(qt, regex_rules(rng, mb))
    # need_calibration decides whether Quantizer.calibrate() looks at any op at
    # all: it must agree with what quantization will ask statistics for
    expect_cal = gr.needs_calibration(json.loads(json.dumps(qt.get_quantization_recipe())))
    if bool(qt.need_calibration) != expect_cal:
      viol.append({'key': 'C10:need-calibration-disagrees', 'what':
                   f'Quantizer.need_calibration = {qt.need_calibration} but the recipe '
                   f'{"has" if expect_cal else "has no"} static-range (INTEGER compute + activation config) rule: '
                   'calibrate() and quantize() do not agree on which ops are quantized',
                   'input': {'recipe': desc, 'model_hex': mb.hex() if len(mb) < 20000 else None}})
    if not expect_cal:
      dist['no_calibration_needed'] += 1
      continue
    rm = qt._recipe_manager  # pylint: disable=protected-access
    n = rng.choice([1, 2, 3, 4])
    data = gg.random_inputs(mb, rng, n, scale=rng.choice([0.5, 1.0, 3.0]))
    dist['cases'] += 1
    dist[f'samples={n}'] += 1
    dist[f'subgraphs={info["n_subgraphs"]}'] += 1
    # ---- C10 oracle 1: same selection on both sides ----
    for gi, (a, b) in enumerate(selection_sets(qt, m)):
      if a != b:
        viol.append({'key': 'C10:selection-differs', 'what':
                     f'subgraph {gi}: ops selected while calibrating {a} != while quantizing {b}',
                     'input': {'recipe': desc, 'model_hex': mb.hex() if len(mb) < 20000 else None}})
    # ---- implementation: one pass per signature, chained ----
    prev = None
    full = None
    ok = True
    persig = []
    for sd in m.signatureDefs:
      key = sd.signatureKey.decode()
      own, sgi = per_sample_minmax(mb, key, data[key])
      prev_before = copy.deepcopy(prev)
      try:
        res = qt.calibrate(data[key], key, previous_calibration_result=prev)
      except Exception as e:  # pylint: disable=broad-except
        viol.append({'key': 'C09:calibrate-raises', 'what':
                     f'calibrate({key}) raises {type(e).__name__}: {str(e)[:120]}',
                     'input': {'recipe': desc, 'signature': key}})
        # ... and the calibrate -> quantize workflow cannot supply the statistics
        # quantization asks for (C10)
        viol.append({'key': 'C10:calibrate-raises', 'what':
                     f'calibrate({key}) raises {type(e).__name__}: {str(e)[:120]} (signature order '
                     f'{[(s_.signatureKey.decode(), int(s_.subgraphIndex)) for s_ in m.signatureDefs]})',
                     'input': {'recipe': desc, 'signature': key,
                               'model_hex': mb.hex() if len(mb) < 20000 else None}})
        ok = False
        break
      # previous result not modified
      if prev is not None and not (list(prev) == list(prev_before) and all(
          bits_equal(prev[k], prev_before[k]) for k in prev)):
        viol.append({'key': 'C09:previous-result-modified', 'what':
                     'the previous calibration result passed in was modified',
                     'input': {'recipe': desc, 'signature': key}})
      persig.append((key, sgi, own, copy.deepcopy(prev), copy.deepcopy(res)))
      # ---- C09 oracle: resumability on this signature ----
      if len(data[key]) >= 2:
        cut = rng.randrange(1, len(data[key]))
        try:
          r1 = qt.calibrate(data[key][:cut], key, previous_calibration_result=copy.deepcopy(prev))
          r2 = qt.calibrate(data[key][cut:], key, previous_calibration_result=r1)
        except Exception as e:  # pylint: disable=broad-except
          viol.append({'key': 'C09:calibrate-raises', 'what':
                       f'resumed calibrate({key}) raises {type(e).__name__}: {str(e)[:120]}',
                       'input': {'recipe': desc, 'signature': key}})
          r2 = res
        if not (list(r2) == list(res) and all(bits_equal(r2[k], res[k]) for k in res)):
          viol.append({'key': 'C09:resume-differs', 'what':
                       f'calibrate(D1) then calibrate(D2, previous) != calibrate(D1+D2) '
                       f'(split at {cut} of {len(data[key])})',
                       'input': {'recipe': desc, 'signature': key}})
      # ---- C09 oracle: runtime tensors = EMA fold of true per-sample min/max ----
      for name in own[0]:
        if name not in res or (prev is not None and name in prev):
          continue
        acc = None
        for d in own:
          new = {'min': d[name][0], 'max': d[name][1]}
          acc = new if acc is None else ema(acc, new)
        if res[name] and not bits_equal(acc, res[name]):
          viol.append({'key': 'C09:statistic-wrong', 'what':
                       f'{name}: recorded min/max differ from the moving average of the '
                       'true per-sample min/max', 'input': {'recipe': desc, 'signature': key}})
          break
      # ---- C09 oracle: statistics only for operands / results of ops the recipe selects ----
      import oracle_static as _os
      recipe_now = json.loads(json.dumps(qt.get_quantization_recipe()))
      # (the first call initialises entries for the selected ops of EVERY subgraph)
      allowed = set()
      const_needed = {}
      for gsel_i, gsel in enumerate(m.subgraphs):
        for o in gsel.operators:
          kn = tfu.TFL_OP_CODE_TO_NAME.get(m.operatorCodes[o.opcodeIndex].builtinCode)
          if kn is None:
            continue
          scope = ''.join(og.tname(gsel.tensors[x]) + ';' for x in o.outputs if x != -1)
          alg, _c = _os.spec_resolve(recipe_now, kn.value, scope)
          if alg != 'no_quantize':
            allowed.update(og.tname(gsel.tensors[int(x)]) for x in list(o.inputs) + list(o.outputs) if int(x) != -1)
          if alg == 'min_max_uniform_quantize':
            for x in o.inputs:
              if int(x) != -1 and og.is_const(m, gsel.tensors[int(x)]):
                const_needed[og.tname(gsel.tensors[int(x)])] = (gsel_i, kn.value)
        isc = ''.join(og.tname(gsel.tensors[x]) + ';' for x in gsel.inputs)
        if _os.spec_resolve(recipe_now, 'INPUT', isc)[0] != 'no_quantize':
          allowed.update(og.tname(gsel.tensors[int(x)]) for x in gsel.inputs)
        if _os.spec_resolve(recipe_now, 'OUTPUT', '')[0] != 'no_quantize':
          allowed.update(og.tname(gsel.tensors[int(x)]) for x in gsel.outputs)
      extra = [nm for nm in res if (prev is None or nm not in prev) and nm not in allowed]
      if extra:
        viol.append({'key': 'C09:statistic-for-unselected-tensor', 'what':
                     f'{extra[:3]}: recorded although no op the recipe selects reads or writes it',
                     'input': {'recipe': desc, 'signature': key,
                               'model_hex': mb.hex() if len(mb) < 30000 else None}})
      # ---- C09 oracle: EVERY constant of a selected op has statistics, whichever
      # signature's subgraph it belongs to and however the session was resumed ----
      lacking = [(nm, w) for nm, w in const_needed.items() if nm not in res]
      if lacking:
        viol.append({'key': 'C09:constant-without-statistics', 'what':
                     f'after calibrate({key}) (previous result: {"yes" if prev is not None else "no"}) the constants '
                     f'{[(nm, "subgraph %d %s" % w) for nm, w in lacking[:3]]} of selected operators have no entry',
                     'input': {'recipe': desc, 'signature': key,
                               'model_hex': mb.hex() if len(mb) < 30000 else None}})
      # ---- C09 oracle: constants = their true per-tensor or per-channel min/max ----
      QDIM = {'FULLY_CONNECTED': 0, 'CONV_2D': 0, 'DEPTHWISE_CONV_2D': 3, 'CONV_2D_TRANSPOSE': 0,
              'EMBEDDING_LOOKUP': 0}
      gsub = m.subgraphs[sgi]
      for ti, t in enumerate(gsub.tensors):
        name = og.tname(t)
        if t.type != 0 or not og.is_const(m, t) or name not in res or not res[name] or \
            (prev is not None and name in prev):
          continue
        raw = m.buffers[t.buffer].data
        w = np.frombuffer(bytes(raw), dtype=np.float32).reshape([int(x) for x in t.shape])
        got_min = np.asarray(res[name]['min'], dtype=np.float32)
        got_max = np.asarray(res[name]['max'], dtype=np.float32)
        if got_min.size <= 1:
          okc = (w.size == 0 or (float(got_min.flatten()[0]) == float(np.min(w)) and
                                 float(got_max.flatten()[0]) == float(np.max(w))))
        else:
          # per-channel statistics: true min/max along the channel axis of a weight operator
          # that reads the constant (readers the quantizer does not know, e.g. an RNN sharing
          # the tensor, do not count); a constant with no weight-operator reader is per TENSOR
          qds = set()
          for o in gsub.operators:
            if ti in [int(x) for x in o.inputs]:
              kname = tfu.TFL_OP_CODE_TO_NAME.get(m.operatorCodes[o.opcodeIndex].builtinCode)
              kname = kname.value if kname else None
              if kname == 'BATCH_MATMUL':
                qds.add(w.ndim - 2 if o.builtinOptions.adjY else w.ndim - 1)
              elif kname in QDIM:
                qds.add(QDIM[kname])
          okc = False
          for qd in qds:
            if not 0 <= qd < w.ndim:
              continue
            axes = tuple(a for a in range(w.ndim) if a != qd)
            if (got_min.size == w.shape[qd] and
                np.array_equal(got_min.flatten(), np.min(w, axis=axes).flatten()) and
                np.array_equal(got_max.flatten(), np.max(w, axis=axes).flatten())):
              okc = True
        if not okc:
          viol.append({'key': 'C09:constant-statistic-wrong', 'what':
                       f'{name}: recorded min/max are not the true per-tensor / per-channel min/max '
                       f'of the constant (shape {list(w.shape)}, recorded {got_min.size} values)',
                       'input': {'recipe': desc, 'signature': key,
                                 'model_hex': mb.hex() if len(mb) < 30000 else None}})
          break
      # a later independent run on the same Quantizer (no previous result for
      # the first signature) must not be influenced by earlier calls
      if prev is None:
        try:
          again = qt.calibrate(data[key], key)
          if not (list(again) == list(res) and all(bits_equal(again[k], res[k]) for k in res)):
            viol.append({'key': 'C09:history-dependent', 'what':
                         'a second calibrate() on the same Quantizer differs from the first',
                         'input': {'recipe': desc, 'signature': key}})
        except Exception as e:  # pylint: disable=broad-except
          viol.append({'key': 'C09:calibrate-raises', 'what':
                       f'second calibrate({key}) raises {type(e).__name__}: {str(e)[:120]}',
                       'input': {'recipe': desc, 'signature': key}})
      prev = res
      full = res
    if not ok:
      continue
    # ---- C10 oracle 2: quantize(calibrate()) never lacks statistics ----
    try:
      qt.quantize(copy.deepcopy(full))
    except Exception as e:  # pylint: disable=broad-except
      kind = cg.classify_raise(e)
      if kind == 'MissingStat' or 'QSVs are required' in str(e) or (
          isinstance(e, ValueError) and 'min and max must be provided' in str(e)):
        viol.append({'key': 'C10:missing-statistics', 'what':
                     f'quantize(calibrate()) fails: {type(e).__name__}: {str(e)[:140]}',
                     'input': {'recipe': desc, 'model_hex': mb.hex() if len(mb) < 20000 else None}})
      dist['quantize_raises:' + kind] += 1
    # ---- model cases (one per signature call) ----
    for key, sgi, own, pv, res in persig:
      ctx = cg.Ctx()
      rid, sid, oid = cr.Intern(), cr.Intern(), cr.Intern()
      rows = scope_table(m, sid)
      for rg in rm._scope_configs:  # pylint: disable=protected-access
        rid(rg)
      pairs = [f'({r}, {s})' for rg, r in rid.d.items() for sc, s in sid.d.items()
               if re.search(rg, sc)]
      adj = []
      for g in m.subgraphs:
        adj.append([bool(m.operatorCodes[o.opcodeIndex].builtinCode == 126 and
                         o.builtinOptions is not None and o.builtinOptions.adjY)
                    for o in g.operators])
      model_lit = cg.c_model(ctx, m)
      if pv is None:
        plit = 'None'
      else:
        names = []
        for k in pv:
          root, sfx = ctx.name(k)
          names.append(f'({root}, {cg.c_zlist(sfx)})')
        plit = f'(Some {vlib.coq_list(names)})'
      lit = (f'({model_lit}, {cp.c_state(rm, rid, oid)}, {vlib.coq_list(pairs)}, '
             f'{vlib.coq_list(rows)}, '
             f'{vlib.coq_list([vlib.coq_list([vlib.coq_bool(b) for b in x]) for x in adj])}, '
             f'({sgi}, {plit}, {len(own)}))')
      sel = selection_sets(qt, m)[sgi][0]
      cases.append((lit, ctx, m, pv, own, res, desc, sel))
      if len(res) >= 2:
        nontrivial.add(lit)
    if len(samples_out) < 3:
      samples_out.append({'recipe': desc, 'n_samples': n,
                          'stat_keys': list(full)[:5]})
  shards = vlib.shard(list(range(len(cases))), 30)
  files = [(f'calib_{si}', PRELUDE + 'Definition cases : list case_t := [\n' +
            ';\n'.join(cases[i][0] for i in idxs) +
            '\n].\nEval vm_compute in (map run_case cases).\n')
           for si, idxs in enumerate(shards)]
  results = vlib.run_case_files(files, jobs=int(os.environ.get('VERIF_JOBS', '12')),
                                timeout=1200)
  mism = []
  for si, idxs in enumerate(shards):
    got = results[f'calib_{si}']
    for k, i in enumerate(idxs):
      lit, ctx, m, pv, own, res, desc, sel = cases[i]
      jr, jsel = vlib.unflat(got[k])
      if jr[0] != 0:
        mism.append({'case': i, 'recipe': desc, 'what': f'model raises {jr}'})
        continue
      qe = QEval(ctx, m, pv, own)
      jstore = jr[1]
      keys_model = [qe.name(kv[0]) for kv in jstore]
      if keys_model != list(res):
        mism.append({'case': i, 'recipe': desc, 'what': 'statistics keys/order',
                     'model': keys_model[:8], 'impl': list(res)[:8]})
        continue
      for kv, name in zip(jstore, res):
        want = qe.val(kv[1])
        if not bits_equal(want, res[name]):
          mism.append({'case': i, 'recipe': desc, 'what':
                       f'{name}: implementation value differs (bitwise) from model term {kv[1]}'})
          break
      # selected ops of this subgraph (real ops, then the virtual I/O ops as -1)
      if jsel[0] == 0 and list(jsel[1]) != list(sel):
        mism.append({'case': i, 'recipe': desc, 'what': 'selected ops',
                     'model': jsel[1], 'impl': sel})
  out = {
      'interface': 'K', 'evaluations': len(cases),
      'distinct_nontrivial': len(nontrivial),
      'n_mismatches': len(mism), 'mismatches': mism[:10],
      'oracle_violations': cg.dedup(viol), 'distribution': dict(dist),
      'samples': samples_out, 'wall_s': time.time() - t0,
  }
  with open(out_path, 'w') as f:
    json.dump(out, f, indent=1, default=str)
  print(f'corr K: {len(cases)} cases, {len(mism)} mismatches, {len(viol)} oracle '
        f'violations, {time.time() - t0:.0f}s')


if __name__ == '__main__':
  main()
