"""Correspondences I / T / E: instruction generator, performer and the whole
quantize() glue vs Model/Insts.v + Model/Perform.v, plus the direct oracles
for C01 / C02 (well-formedness, skeleton, signatures, interpreter).

argv: out.json [--props C01,C02,...]
"""
import collections
import copy
import json
import os
import random
import sys
import time

sys.path.insert(0, os.path.dirname(os.path.abspath(__file__)))
import vlib
from absl import logging as _l
_l.set_verbosity(_l.ERROR)

import numpy as np
from ai_edge_quantizer import params_generator
from ai_edge_quantizer import qtyping
from ai_edge_quantizer import quantizer
from ai_edge_quantizer import transformation_instruction_generator as tig
import gen_graph as gg
import gen_recipe as gr
import oracle_graph as og
import corr_recipe as cr

TRANS = list(qtyping.QuantTransformation)
SFX = {'_quantized': 0, '_dequant': 1}


class Ctx:
  """Interning tables shared by the input model, params and output model."""

  def __init__(self):
    self.roots = cr.Intern()
    self._shapes = cr.Intern()
    self.uids = cr.Intern()
    self.params = []        # representatives, index = class id

  def shapes(self, shape):
    """opaque shape id with id mod 8 = rank (Model/Graph.v t_rank)"""
    return self._shapes(tuple(shape)) * 8 + len(tuple(shape))

  def name(self, s):
    """name <-> (root, suffix tokens): "_quantized"->0, "_dequant"->1,
    "_<k>" (k>=1, no leading zero) -> 2+k; bijective."""
    import re
    sfx = []
    while True:
      for k, v in SFX.items():
        if s.endswith(k):
          sfx.insert(0, v)
          s = s[:-len(k)]
          break
      else:
        m = re.search(r'_([1-9][0-9]*)$', s)
        if m and s[:m.start()].endswith(tuple(SFX)):   # "_k" only right after a transformation suffix
          sfx.insert(0, 2 + int(m.group(1)))
          s = s[:m.start()]
          continue
        break
    return self.roots(s), sfx

  def pid(self, p):
    for i, q in enumerate(self.params):
      if q == p:
        return i
    self.params.append(p)
    return len(self.params) - 1


def param_sig(p):
  if isinstance(p, qtyping.UniformQuantParams):
    return ('u', tuple(np.asarray(p.scale).flatten().astype(np.float32).tolist()),
            tuple(int(x) for x in np.asarray(p.zero_point).flatten()),
            0 if p.quantized_dimension is None else int(p.quantized_dimension))
  return None


def pack_ref(bits, data):
  """Independent re-statement of the TFLite storage format."""
  raw = np.frombuffer(np.ascontiguousarray(data).tobytes(), dtype=np.uint8)
  if bits <= 4:
    vals = [int(x) for x in raw]          # one int8 per element
    if len(vals) % 2:
      vals.append(0)
    return bytes(((vals[i] & 0x0F) | ((vals[i + 1] & 0x0F) << 4))
                 for i in range(0, len(vals), 2))
  return raw.tobytes()


# ---------------- Coq literal writers ----------------
def c_qparam(ctx, p):
  if p is None:
    return 'None'
  i = ctx.pid(p)
  uni = isinstance(p, qtyping.UniformQuantParams)
  return (f'(Some (Build_qparam {i} {vlib.coq_bool(uni)} {vlib.zlit(p.num_bits)} '
          f'{vlib.coq_bool(p.quantized_data is not None)}))')


def c_zlist(xs):
  return vlib.coq_list([vlib.zlit(int(x)) for x in xs])


def c_model(ctx, m):
  sgs = []
  for g in m.subgraphs:
    ts = []
    for t in g.tensors:
      root, sfx = ctx.name(og.tname(t))
      ts.append(f'(Build_tensor {root} {c_zlist(sfx)} '
                f'{ctx.shapes(tuple(int(x) for x in t.shape))} {int(t.type)} '
                f'{int(t.buffer)} None)')
    ops = []
    for o in g.operators:
      uid = ctx.uids((int(o.builtinOptionsType), og._opts_repr(o.builtinOptions)))
      ops.append(f'(Build_op {int(o.opcodeIndex)} {c_zlist(o.inputs)} '
                 f'{c_zlist(o.outputs)} {uid})')
    sgs.append(f'(Build_subgraph {vlib.coq_list(ts)} {vlib.coq_list(ops)} '
               f'{c_zlist(g.inputs)} {c_zlist(g.outputs)})')
  bufs = []
  for i, b in enumerate(m.buffers):
    bufs.append('BEmpty' if b.data is None or len(b.data) == 0 else f'(BOrig {i})')
  sigs = [f'(Build_sigdef {int(sd.subgraphIndex)} '
          f'{c_zlist(tm.tensorIndex for tm in sd.inputs)} '
          f'{c_zlist(tm.tensorIndex for tm in sd.outputs)})'
          for sd in (m.signatureDefs or [])]
  return (f'(Build_model {vlib.coq_list(sgs)} {vlib.coq_list(bufs)} '
          f'{c_zlist(c.builtinCode for c in m.operatorCodes)} {vlib.coq_list(sigs)})')


def c_o2t(ctx, o):
  tr = vlib.coq_list(['Tr_' + t.name for t in o.transformations])
  return f'(Build_o2t {vlib.zlit(o.subgraph_op_id)} {tr} {c_qparam(ctx, o.parameters)})'


def c_ttp(ctx, p):
  root, sfx = ctx.name(p.tensor_name)
  prod = 'None' if p.producer is None else f'(Some {c_o2t(ctx, p.producer)})'
  cons = ('None' if p.consumers is None else
          '(Some ' + vlib.coq_list([c_o2t(ctx, c) for c in p.consumers]) + ')')
  return f'(Build_ttp ({root}, {c_zlist(sfx)}) {prod} {cons})'


# ---------------- implementation-side J ----------------
def j_insts(ctx, insts):
  out = []
  for name, ti in insts.items():
    root, sfx = ctx.name(ti.tensor_name)
    out.append([root, sfx, ti.subgraph_id,
                [[TRANS.index(i.transformation), int(i.tensor_id),
                  -1 if i.producer is None else int(i.producer),
                  [int(c) for c in i.consumers],
                  vlib.jopt(i.parameters, ctx.pid)] for i in ti.instructions]])
  return out


def compare_model(ctx, jm, m_in, m_out):
  """Semantic comparison of the Coq model result (unflattened J) with the
  implementation's output flatbuffer. Returns list of difference strings."""
  diffs = []
  jsgs, jbufs, jcodes, jsigs = jm
  if len(jsgs) != len(m_out.subgraphs):
    return ['subgraph count']
  for gi, (jg, g) in enumerate(zip(jsgs, m_out.subgraphs)):
    jts, jops, jin, jout = jg
    n_orig = len(m_in.subgraphs[gi].tensors)
    if len(jts) != len(g.tensors):
      diffs.append(f'sg{gi}: tensor count model {len(jts)} impl {len(g.tensors)}')
      continue
    for ti, (jt, t) in enumerate(zip(jts, g.tensors)):
      root, sfx = ctx.name(og.tname(t))
      exp = [root, sfx, ctx.shapes(tuple(int(x) for x in t.shape)), int(t.type),
             int(t.buffer)]
      if jt[:5] != exp:
        diffs.append(f'sg{gi} t{ti}: model {jt[:5]} impl {exp}')
      q = t.quantization
      has_q = q is not None and q.scale is not None and len(q.scale) > 0
      if bool(jt[5]) != has_q:
        diffs.append(f'sg{gi} t{ti}: quantization presence model {jt[5]} impl {has_q}')
      elif has_q:
        sig = ('u', tuple(float(np.float32(x)) for x in q.scale),
               tuple(int(x) for x in q.zeroPoint), int(q.quantizedDimension))
        if param_sig(ctx.params[jt[5][0]]) != sig:
          diffs.append(f'sg{gi} t{ti}: quantization params differ from model class '
                       f'{jt[5][0]}')
    if len(jops) != len(g.operators):
      diffs.append(f'sg{gi}: op count model {len(jops)} impl {len(g.operators)}')
    else:
      for oi, (jo, o) in enumerate(zip(jops, g.operators)):
        inserted = len(o.outputs) == 1 and int(o.outputs[0]) >= n_orig
        uid = -1 if inserted else ctx.uids(
            (int(o.builtinOptionsType), og._opts_repr(o.builtinOptions)))
        exp = [int(o.opcodeIndex), [int(x) for x in o.inputs],
               [int(x) for x in o.outputs], uid]
        if jo != exp:
          diffs.append(f'sg{gi} op{oi}: model {jo} impl {exp}')
    if jin != [int(x) for x in g.inputs] or jout != [int(x) for x in g.outputs]:
      diffs.append(f'sg{gi}: io model {jin}/{jout} impl {list(g.inputs)}/{list(g.outputs)}')
  if jcodes != [int(c.builtinCode) for c in m_out.operatorCodes]:
    diffs.append('opcode table')
  if len(jbufs) != len(m_out.buffers):
    diffs.append(f'buffer count model {len(jbufs)} impl {len(m_out.buffers)}')
  else:
    for bi, (jb, b) in enumerate(zip(jbufs, m_out.buffers)):
      data = b'' if b.data is None else bytes(np.asarray(b.data, dtype=np.uint8).tobytes())
      if jb[0] == 0:
        ok = len(data) == 0
      elif jb[0] == 1:
        src = m_in.buffers[jb[1]].data
        ok = data == bytes(np.asarray(src, dtype=np.uint8).tobytes())
      else:
        p = ctx.params[jb[1]]
        exp_b = pack_ref(p.num_bits, p.quantized_data)
        ok = data == exp_b
        qd = np.asarray(p.quantized_data)
        if not ok and qd.dtype == np.float16 and len(data) == len(exp_b):
          # parameter classes are VALUE classes (Python ==, as the code compares them): two
          # float16 constants that differ only in the sign of a zero are one class, and the
          # class representative's bytes may carry the other sign
          ok = np.array_equal(np.frombuffer(data, dtype=np.float16), np.frombuffer(exp_b, dtype=np.float16),
                              equal_nan=True)
      if not ok:
        diffs.append(f'buffer {bi}: bytes differ from model {jb}')
  exp_sigs = [[int(sd.subgraphIndex), [int(t.tensorIndex) for t in sd.inputs],
               [int(t.tensorIndex) for t in sd.outputs]]
              for sd in (m_out.signatureDefs or [])]
  if jsigs != exp_sigs:
    diffs.append(f'signatures model {jsigs} impl {exp_sigs}')
  return diffs


WHY = {0: 'all hold', 1: 'no such list', 2: 'ids / subgraph out of range', 3: 'last is not an insertion',
       4: 'consumer id < -1', 5: 'instructions of the list name different tensors',
       6: 'an earlier list of the subgraph names the tensor',
       7: 'list holds a NO_QUANTIZE instruction (float reader beside quantized readers)',
       8: 'list holds an instruction that is neither in place nor an insertion',
       9: 'an earlier insertion overlaps the last consumer list partially',
       10: 'an insertion disjoint from the last list is followed by an enclosing one that overlaps it'}

PRELUDE = '''From VF Require Import Base.Prelude Gen.Enums Model.Graph Model.Insts Model.Perform Spec.WFb Spec.Interleave Spec.LastOk.
Open Scope Z_scope.
Definition run_case (c : model * list ttp) : list Z :=
  let r1 := insts_of_params (fst c) (snd c) in
  let r2 := tis <- r1 ;; transform_graph (fst c) tis in
  (* hypotheses of the C01/C02 composition theorems, decided on this input;
     and the conclusion of C01 on the model's result *)
  let hyp := forallb wf_sgb (m_subgraphs (fst c)) && uids_okb (fst c)
             && forallb names_uniqueb (m_subgraphs (fst c))
             (* C19 composition: opcode indices in range, instruction subgraph ids >= 0 *)
             && forallb (fun g => forallb (fun o => (0 <=? o_code o) && (o_code o <? lenZ (m_opcodes (fst c))))
                                          (sg_ops g)) (m_subgraphs (fst c))
             && match r1 with
                | Ok tis => forallb (fun ti => (0 <=? ti_sg ti) && forallb (fun i => 0 <=? i_tensor i) (ti_insts ti)) tis
                | Err _ => true end in
  let concl := match r2 with
               | Ok m' => forallb wf_sgb (m_subgraphs m') && forallb names_uniqueb (m_subgraphs m')
               | Err _ => true end in
  (* C06 over whole runs: for a float-compute run (every instruction is
     ADD_DEQUANTIZE or NO_QUANTIZE) each result subgraph is an interleaving of
     the original ops with DEQUANTIZE ops on constants (interb, sound w.r.t.
     [inter], for which meaning preservation is a theorem) *)
  let wo := match r1 with
            | Ok tis => forallb (fun ti => forallb (fun i =>
                          match i_trans i with Tr_ADD_DEQUANTIZE | Tr_NO_QUANTIZE => true | _ => false end)
                          (ti_insts ti)) tis
                        && existsb (fun ti => existsb (fun i =>
                          match i_trans i with Tr_ADD_DEQUANTIZE => true | _ => false end) (ti_insts ti)) tis
            | Err _ => false end in
  let sem := match r2 with
             | Ok m' =>
                 forall2b (fun g0 g =>
                   let n0 := lenZ (sg_tensors g0) in
                   let isq := fun c => existsb (fun o => Z.eqb (o_uid o) UID_INSERTED &&
                                                         match o_ins o with [y] => Z.eqb y c | _ => false end)
                                               (sg_ops g) in
                   interb n0 isq [] (sg_ops g0) (sg_ops g))
                   (m_subgraphs (fst c)) (m_subgraphs m')
             | Err _ => true end in
  (* hypotheses of the whole-run C06 theorem (plan_okb, sound) on this plan *)
  let planok := match r1 with
                | Ok tis => forallb (fun kg => plan_okb (Z.to_nat (fst kg)) (snd kg) tis)
                                    (enumerate (m_subgraphs (fst c)))
                | Err _ => false end in
  (* hypotheses of the whole-run C03 theorem on the last instruction of a list
     (last_hypb, sound: Proofs/LastOkSound.v): how many generated lists end
     with an inserted QUANTIZE / DEQUANTIZE, and how many of those meet them *)
  (* (lists are taken with the NO_QUANTIZE instructions, which the performer
     skips, dropped: C03_no_quantize_instructions_are_inert) *)
  let r1s : res (list tinsts) := match r1 with Ok tis => Ok (map strip tis) | Err e => Err e end in
  let lastn := match r1s with
               | Ok tis => Z.of_nat (length (filter last_is_insertion tis))
               | Err _ => 0 end in
  let lastok := match r1s with
                | Ok tis => Z.of_nat (length (filter (fun nt => last_is_insertion (snd nt)
                                                       && last_hypb (fst c) tis (Z.to_nat (fst nt)))
                                                     (enumerate tis)))
                | Err _ => 0 end in
  flat (JL [Jres (Jlist J_tinsts) r1; Jres J_model r2; JB hyp; JB concl; JB wo; JB (negb wo || sem);
            JB (wo && planok); JZ lastn; JZ lastok;
            JL (match r1s with
                | Ok tis => map (fun nt => JZ (last_why (fst c) tis (Z.to_nat (fst nt))))
                                (filter (fun nt => last_is_insertion (snd nt)) (enumerate tis))
                | Err _ => [] end)]).
'''


def io_covered(qt, m_in):
  """Does a (non no_quantize, static) rule cover INPUT / OUTPUT per subgraph?"""
  res = []
  rm = qt._recipe_manager  # pylint: disable=protected-access
  for g in m_in.subgraphs:
    iscope = ''.join(og.tname(g.tensors[x]) + ';' for x in g.inputs)
    a1, _ = rm.get_quantization_configs('INPUT', iscope)
    a2, _ = rm.get_quantization_configs('OUTPUT', '')
    res.append((str(getattr(a1, 'value', a1)) != 'no_quantize',
                str(getattr(a2, 'value', a2)) != 'no_quantize'))
  return res


def gen_cases(rng, n):
  ship = gr.shipped()
  for k in range(n):
    if k % 27 == 20 and os.environ.get('VERIF_PROP') == 'C01':
      # OP REPLACEMENT (emulated sub-channel, reachable with skip_checks=True): not modelled in
      # Coq; the returned model is checked by the C01 oracles only
      from ai_edge_quantizer import qtyping as _q
      mb, info = gg.fc3d_model(rng)
      qt = quantizer.Quantizer(bytearray(mb))
      try:
        qt.update_quantization_recipe(
            '.*', 'FULLY_CONNECTED',
            _q.OpQuantizationConfig(None, _q.TensorQuantizationConfig(
                8, True, _q.QuantGranularity.BLOCKWISE, block_size=rng.choice([4, 8])),   # (4-bit: the runtime has no INT4 BATCH_MATMUL; skip_checks is the user's risk)
                                    _q.ComputePrecision.FLOAT, True, skip_checks=True),
            'min_max_uniform_quantize')
        yield mb, qt, None, 'blockwise+skip_checks', dict(info, real_stats=True, unmodelled=True)
      except ValueError:
        pass
      continue
    if k % 27 == 2:
      # directed: ONE constant tensor read by two element-wise ops whose rules select
      # different static configs (int8 vs int16 activations, ...): must be refused
      # (buffer-sharing rule) or come out consistent and loadable
      mb, info = gg.shared_operand_model(rng)
      qt = quantizer.Quantizer(bytearray(mb))
      ca, cb = rng.choice([('a8w8', 'a16w8'), ('a16w8', 'a8w8'), ('a8w8', 'a8sw8'), ('a8w8', 'a8w8')])
      ncfg = gr.named_configs()
      desc = gr.apply_rules(qt, [('.*', info['kinds'][0], ncfg[ca][0], ca), ('.*', info['kinds'][1], ncfg[cb][0], cb)])
      if len(desc) == 2:
        stats = gr.own_stats(mb, gg.random_inputs(mb, rng, 1))
        yield mb, qt, stats, desc, dict(info, real_stats=True, directed='shared-operand-two-static-configs')
      continue
    fan = rng.choice([3, 3, 4]) if k % 9 == 4 else 0
    alias = (k % 9 == 7)     # directed: one tensor under two graph outputs x static recipe
    # directed: the model also RETURNS one of its constants (F27) — C01's stream only: the
    # consequences of F27 would otherwise show up under C03/C04/C08 as well
    const_out = (k % 27 == 11) and os.environ.get('VERIF_PROP') == 'C01'
    gg.DUP_PROB = 1.0 if alias else 0.06
    gg.CONST_OUTPUT_PROB = 1.0 if const_out else 0.0
    try:
      mb, info = gg.gen_model(rng, max_ops=rng.choice([3, 5, 8, 10]), fanout=fan)
    finally:
      gg.DUP_PROB = 0.06
      gg.CONST_OUTPUT_PROB = 0.0
    for trial in range(2):
      qt = quantizer.Quantizer(bytearray(mb))
      if const_out and trial == 0:
        name = rng.choice(['default_a8w8_recipe', 'default_a16w8_recipe'])
        qt.load_quantization_recipe(copy.deepcopy(ship[name]))
        desc = name
      elif alias and trial == 0:
        # static everywhere, graph outputs (and sometimes inputs) left float:
        # a DEQUANTIZE is inserted in front of every (aliased) graph output
        cn = rng.choice(['a8w8', 'a16w8', 'a8sw8'])
        rules = [('.*', '*', gr.named_configs()[cn][0], cn), ('.*', 'OUTPUT', gr.NQ, 'nq')]
        if rng.random() < 0.5:
          rules.append(('.*', 'INPUT', gr.NQ, 'nq'))
        desc = gr.apply_rules(qt, rules)
        if not desc:
          continue
      elif fan and trial == 0:
        desc = gr.apply_rules(qt, gr.fanout_rules(rng, mb))
        if not desc:
          continue
      elif trial == 0 and rng.random() < 0.5:
        name = rng.choice(gr.DEFAULT_SHIPPED)
        qt.load_quantization_recipe(copy.deepcopy(ship[name]))
        desc = name
      else:
        rules, fam = gr.gen_rules(rng, mb)
        desc = gr.apply_rules(qt, rules)
        if not desc:
          continue
      stats, real = None, True
      if qt.need_calibration:
        if const_out or rng.random() < 0.75:
          stats = gr.own_stats(mb, gg.random_inputs(mb, rng, rng.choice([1, 1, 2])))
        else:
          stats, real = gr.synthetic_stats(mb, rng), False
      info = dict(info, real_stats=real)
      yield mb, qt, stats, desc, info


def classify_raise(e, model=None):
  """Cause of an exception of quantize()/plan generation.  With the input
  model at hand the buffer-sharing rejection is split by what is shared: a
  CONSTANT (genuinely conflicting uses of one constant) or a runtime tensor."""
  msg = str(e)
  if isinstance(e, RuntimeError) and 'share the same buffer' in msg:
    import re
    m = re.search(r"The tensors (b'.*?') and (b'.*?') do not", msg)
    kind = ''
    if model is not None and m:
      nm = m.group(1)[2:-1]
      for g in model.subgraphs:
        for t in g.tensors:
          if og.tname(t) == nm:
            kind = ':constant' if og.is_const(model, t) else ':runtime'
    if m and m.group(1) == m.group(2):
      return 'BufferSharing:same-tensor' + kind
    return 'BufferSharing:distinct-tensors' + kind
  if isinstance(e, ValueError) and 'list.remove' in msg:
    return 'ListRemove'
  if isinstance(e, ValueError) and 'both quantized and unquantized' in msg:
    return 'QuantAndUnquant'
  if isinstance(e, ValueError) and 'not found in tensor_name_to_qsv' in msg:
    return 'MissingStat'
  return 'Other:' + type(e).__name__


def dedup(viol, per_key=2):
  seen = collections.Counter()
  out = []
  for v in viol:
    seen[v['key']] += 1
    if seen[v['key']] <= per_key:
      out.append(v)
  return out


def main():
  out_path = sys.argv[1]
  tier = os.environ.get('VERIF_TIER', 'quick')
  seed = int(os.environ.get('VERIF_SEED', '0'))
  rng = random.Random(seed * 7919 + 1)
  t0 = time.time()
  n_models = 3000 if tier == 'thorough' else 220
  cases = []       # (coq literal, ctx, impl insts J or err, m_in, m_out or err, desc)
  viol = []
  dist = collections.Counter()
  nontrivial = set()
  samples = []
  raises = collections.Counter()
  for mb, qt, stats, desc, info in gen_cases(rng, n_models):
    m_in = og.read(mb)
    ctx = Ctx()
    if info.get('unmodelled'):
      dist['unmodelled_op_replacement'] += 1
      try:
        ob = qt.quantize(None).quantized_model
      except Exception as e:  # pylint: disable=broad-except
        dist['unmodelled_raises'] += 1
        continue
      bad = og.check_wf(og.read(ob))
      r = og.run_interpreter(ob)
      if r[0] != 'ok':
        bad.append(('C01:interp-' + r[0], str(r[1])[:200]))
      for key_, msg_ in bad[:3]:
        viol.append({'key': key_, 'what': msg_, 'input': {'recipe': desc, 'model_hex': mb.hex()}})
      continue
    dist['cases'] += 1
    dist[f'subgraphs={info["n_subgraphs"]}'] += 1
    try:
      pg = params_generator.ParamsGenerator(bytearray(mb))
      params = pg.generate_quantization_parameters(
          qt._recipe_manager, copy.deepcopy(stats))  # pylint: disable=protected-access
    except Exception as e:  # pylint: disable=broad-except
      raises[classify_raise(e)] += 1
      dist['plan_raises'] += 1
      if isinstance(desc, str):
        viol.append({'key': 'C08:quantize:' + classify_raise(e, m_in), 'what':
                     f'shipped recipe {desc} rejected: {type(e).__name__}: {str(e)[:160]}',
                     'input': {'recipe': desc, 'model_hex': mb.hex() if len(mb) < 20000 else None}})
      continue
    # instruction generator (real)
    gen = tig.TransformationInstructionsGenerator()
    m_copy = copy.deepcopy(og.read(mb))
    try:
      insts = gen.quant_params_to_transformation_insts(params, m_copy)
      ji = [0, j_insts(ctx, insts)]
    except Exception as e:  # pylint: disable=broad-except
      ji = [1, cr.exn_code(e)]
      raises[classify_raise(e)] += 1
    # whole pipeline (real)
    try:
      res = qt.quantize(copy.deepcopy(stats))
      m_out = og.read(res.quantized_model)
      out_bytes = res.quantized_model
    except Exception as e:  # pylint: disable=broad-except
      m_out = e
      out_bytes = None
      if isinstance(desc, str):
        viol.append({'key': 'C08:quantize:' + classify_raise(e, m_in), 'what':
                     f'shipped recipe {desc} rejected: {type(e).__name__}: {str(e)[:160]}',
                     'input': {'recipe': desc, 'model_hex': mb.hex() if len(mb) < 20000 else None}})
    lit = f'({c_model(ctx, m_in)},\n {vlib.coq_list([c_ttp(ctx, p) for p in params.values()])})'
    cases.append((lit, ctx, ji, m_in, m_out, desc, mb))
    if ji[0] == 0 and any(i[0] != 0 for t in ji[1] for i in t[3]):
      nontrivial.add(json.dumps(ji[1]))
    # ---- direct oracles (C01, C02) ----
    if not isinstance(m_out, Exception):
      dist['returned'] += 1
      bad = og.check_wf(m_out) + og.check_skeleton(m_in, m_out, io_covered(qt, m_in))
      if info['real_stats']:      # synthetic statistics are outside C01's quantifier
        dist['interpreter_runs'] += 1
        r = og.run_interpreter(out_bytes)
        if r[0] != 'ok':
          msg = str(r[1])
          if 'add.cc' in msg and 'input1_shift == 0' in msg:
            bad.append(('C01:interp:int16-add-pot-scale', msg[:200]))
          elif 'sub.cc' in msg and 'input1_shift == 0' in msg:
            bad.append(('C01:interp:int16-sub-pot-scale', msg[:200]))
          elif any(og.is_const(m_in, g.tensors[int(x)]) for g in m_in.subgraphs for x in g.outputs):
            # F27: a constant that is also a graph output is quantized as an ACTIVATION
            # for the OUTPUT rule although a kernel reads it as weight / bias
            bad.append(('C01:interp:constant-graph-output', msg[:200]))
          elif r[0] == 'abort' and og.addsub_multiplier_overflow(m_out):
            # F28: output range of an ADD/SUB far below its inputs' (x + (-x)): the
            # kernel's real_output_multiplier >= 1 and Prepare CHECK-aborts
            bad.append(('C01:interp:addsub-output-multiplier-ge-one',
                        f'{og.addsub_multiplier_overflow(m_out)}: {msg[:160]}'))
          else:
            bad.append(('C01:interp-' + r[0], msg[:200]))
      for key, msg in bad[:2]:
        viol.append({'key': key, 'what': msg, 'input': {
            'model_seed_case': dist['cases'], 'recipe': desc,
            'model_hex': mb.hex() if len(mb) < 20000 else None}})
    else:
      dist['quantize_raises'] += 1
    if len(samples) < 3 and ji[0] == 0:
      samples.append({'recipe': desc, 'n_tensors': len(ji[1]),
                      'instructions': ji[1][:2]})
  # ---- model side ----
  shards = vlib.shard(list(range(len(cases))), 40)
  files = []
  for si, idxs in enumerate(shards):
    body = ';\n'.join(cases[i][0] for i in idxs)
    files.append((f'graph_{si}', PRELUDE + 'Definition cases : list (model * list ttp) := [\n'
                  + body + '\n].\nEval vm_compute in (map run_case cases).\n'))
  results = vlib.run_case_files(files, jobs=int(os.environ.get('VERIF_JOBS', '12')),
                                timeout=1200)
  mism = []
  hyp_checked = 0
  float_runs = 0
  plan_runs = 0
  last_lists = 0
  last_ok = 0
  last_why = collections.Counter()
  for si, idxs in enumerate(shards):
    got = results[f'graph_{si}']
    for k, i in enumerate(idxs):
      lit, ctx, ji, m_in, m_out, desc, mb = cases[i]
      jr1, jr2, jhyp, jconcl, jwo, jsem, jplan, jlastn, jlastok, jwhy = vlib.unflat(got[k])
      for w in jwhy:
        last_why[WHY.get(int(w), str(w))] += 1
      last_lists += int(jlastn)
      last_ok += int(jlastok)
      plan_runs += int(bool(jplan))
      hyp_checked += 1
      float_runs += int(bool(jwo))
      if not jsem:
        mism.append({'interface': 'T', 'case': i, 'recipe': desc,
                     'what': 'float-compute run whose result is not an interleaving of the original ops with '
                             'DEQUANTIZE ops on constants (interb false)'})
      if not jhyp:
        mism.append({'interface': 'hypotheses', 'case': i, 'recipe': desc,
                     'what': 'generated input does not satisfy wf_sgb / uids_okb (hypotheses of the composition theorems)'})
      if not jconcl:
        mism.append({'interface': 'T', 'case': i, 'recipe': desc, 'what': 'model result is not well formed (wf_sgb)'})
      # I: instructions
      if jr1[0] != ji[0] or (jr1[0] == 0 and jr1[1] != ji[1]) or (
          jr1[0] == 1 and jr1[1] != ji[1]):
        mism.append({'interface': 'I', 'case': i, 'recipe': desc,
                     'model': jr1 if jr1[0] else jr1[1][:4],
                     'impl': ji if ji[0] else ji[1][:4]})
        continue
      # T/E: final model
      if isinstance(m_out, Exception):
        if jr2[0] != 1:
          mism.append({'interface': 'E', 'case': i, 'recipe': desc,
                       'model': 'returns', 'impl': f'raises {type(m_out).__name__}: {m_out}'})
        continue
      if jr2[0] != 0:
        mism.append({'interface': 'E', 'case': i, 'recipe': desc,
                     'model': f'raises {jr2}', 'impl': 'returns'})
        continue
      d = compare_model(ctx, jr2[1], m_in, m_out)
      if d:
        mism.append({'interface': 'E', 'case': i, 'recipe': desc, 'diffs': d[:5]})
  out = {
      'interface': 'I+T+E', 'evaluations': len(cases), 'theorem_hypotheses_checked_on_inputs': hyp_checked,
      'float_compute_runs_checked_interleaving': float_runs,
      'float_compute_runs_meeting_whole_run_theorem_hypotheses': plan_runs,
      'instruction_lists_ending_with_an_insertion': last_lists,
      'of_those_meeting_last_instruction_theorem_hypotheses': last_ok,
      'first_failing_hypothesis_of_the_others': {k: v for k, v in last_why.items() if k != 'all hold'},
      'distinct_nontrivial': len(nontrivial),
      'n_mismatches': len(mism), 'mismatches': mism[:10],
      'oracle_violations': dedup(viol), 'distribution': dict(dist),
      'raise_kinds': dict(raises), 'samples': samples,
      'wall_s': time.time() - t0,
  }
  with open(out_path, 'w') as f:
    json.dump(out, f, indent=1, default=str)
  print(f'corr I/T/E: {len(cases)} cases, {len(mism)} mismatches, '
        f'{len(viol)} oracle violations, raises {dict(raises)}, '
        f'{time.time() - t0:.0f}s')


if __name__ == '__main__':
  main()
