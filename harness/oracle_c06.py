"""Runtime validation for C06: float-compute modes (weight-only, float16 cast,
dynamic range) compute what the float model computes with every rewritten
constant replaced by its dequantized value.

For every generated model x float-compute recipe:
 * REFERENCE MODEL = the INPUT model with each rewritten constant replaced by
   the values decoded (own decoder) from the OUTPUT model and dequantized in
   float32; when no dynamic-range op is present the two models' outputs are
   compared end to end (rtol 1e-5);
 * OP LEVEL (always): for every original op that reads a rewritten constant,
   the op is re-executed alone as a float op on the activations the quantized
   model actually saw (intermediate tensors) with the dequantized constants;
   weight-only / fp16: equal up to float32 rounding; dynamic range: within the
   analytic bound of the runtime's per-batch symmetric 8-bit activation
   quantization: |dy_j| <= ||W_j||_1 * max|x| / 254 (+ slack).

argv: out.json"""
import collections
import copy
import json
import os
import random
import sys
import time

sys.path.insert(0, os.path.dirname(os.path.abspath(__file__)))
from absl import logging as _l
_l.set_verbosity(_l.ERROR)

import numpy as np
from ai_edge_litert import interpreter as tfl
from ai_edge_litert import schema_py_generated as S
from ai_edge_quantizer import quantizer
from tensorflow.lite.tools import flatbuffer_utils as FU
import gen_graph as gg
import gen_recipe as gr
import oracle_graph as og
import oracle_static as os_
import corr_graph as cg

F32 = 0
FLOAT_CFGS = ['wo8', 'wo8s', 'wo4', 'fp16', 'drq8', 'drq8t', 'drq4']


def dequantized(t_out, m_out):
  """float32 values a DEQUANTIZE / hybrid kernel sees for a rewritten constant"""
  data = os_.bdata(m_out, t_out)
  vals, err = os_.decode(t_out, data or b'')
  if err:
    return None
  if t_out.type == os_.F16:
    return vals.astype(np.float32)
  q = os_.tq(t_out)
  if q is None:
    return None
  sc, zp, qd = q
  shape = [1] * vals.ndim
  if len(sc) > 1:
    shape[qd] = len(sc)
  s_b = sc.astype(np.float32).reshape(shape) if vals.ndim else sc.astype(np.float32)[0]
  z_b = zp.reshape(shape) if vals.ndim else int(zp[0])
  return ((vals - z_b).astype(np.float32) * s_b).astype(np.float32)


def run_all(model_bytes, feed_by_sig):
  """{sig: ({tensor name: array}, {output name: array})} with all tensors preserved"""
  it = tfl.Interpreter(model_content=bytes(model_bytes),
                       experimental_op_resolver_type=tfl.OpResolverType.BUILTIN_WITHOUT_DEFAULT_DELEGATES,
                       experimental_preserve_all_tensors=True)
  it.allocate_tensors()
  res = {}
  for key, feed in feed_by_sig.items():
    r = it.get_signature_runner(key)
    outs = r(**feed)
    sg = r._subgraph_index  # pylint: disable=protected-access
    tens = {}
    for det in it.get_tensor_details(sg):
      if det['name']:
        try:
          tens[det['name']] = np.array(it.get_tensor(det['index'], sg))
        except ValueError:
          pass
    res[key] = (tens, {k: np.array(v) for k, v in outs.items()}, sg)
  return res


def single_op_model(m_in, gi, k, const_values):
  """float model made of op k of subgraph gi alone; activation operands become
  graph inputs, constants carry [const_values] (by tensor index) or their own data"""
  g = m_in.subgraphs[gi]
  o = g.operators[k]
  m = S.ModelT()
  m.version = 3
  m.description = b'c06 single op'
  m.buffers = [S.BufferT()]
  m.operatorCodes = [copy.deepcopy(m_in.operatorCodes[o.opcodeIndex])]
  sg = S.SubGraphT()
  sg.name = b'main'
  sg.tensors, sg.operators = [], []
  remap = {}
  ins = []
  for x in list(o.inputs) + list(o.outputs):
    x = int(x)
    if x == -1 or x in remap:
      continue
    t = copy.deepcopy(g.tensors[x])
    b = S.BufferT()
    if og.is_const(m_in, g.tensors[x]):
      if x in const_values:
        arr = const_values[x]
        b.data = np.frombuffer(np.ascontiguousarray(arr).tobytes(), dtype=np.uint8)
      else:
        b.data = copy.deepcopy(m_in.buffers[g.tensors[x].buffer].data)
    elif x in [int(y) for y in o.inputs]:
      ins.append(len(sg.tensors))
    m.buffers.append(b)
    t.buffer = len(m.buffers) - 1
    remap[x] = len(sg.tensors)
    sg.tensors.append(t)
  op = copy.deepcopy(o)
  op.opcodeIndex = 0
  op.inputs = np.array([remap.get(int(x), -1) if int(x) != -1 else -1 for x in o.inputs], dtype=np.int32)
  op.outputs = np.array([remap[int(x)] for x in o.outputs], dtype=np.int32)
  sg.operators = [op]
  sg.inputs = np.array(ins, dtype=np.int32)
  sg.outputs = np.array(op.outputs, dtype=np.int32)
  m.subgraphs = [sg]
  m.signatureDefs = []
  return bytes(FU.convert_object_to_bytearray(m)), [og.tname(sg.tensors[i]) for i in ins], \
      [og.tname(sg.tensors[int(i)]) for i in op.outputs]


def run_plain(model_bytes, feed_by_name):
  it = tfl.Interpreter(model_content=bytes(model_bytes),
                       experimental_op_resolver_type=tfl.OpResolverType.BUILTIN_WITHOUT_DEFAULT_DELEGATES)
  it.allocate_tensors()
  for det in it.get_input_details():
    it.set_tensor(det['index'], feed_by_name[det['name']])
  it.invoke()
  return {det['name']: np.array(it.get_tensor(det['index'])) for det in it.get_output_details()}


def l1_per_output(key, w, adj_y=False):
  """upper bound of sum_k |W_jk| for every output channel j (broadcastable to the output's last axis)"""
  a = np.abs(w.astype(np.float64))
  if key == 'FULLY_CONNECTED':
    return a.sum(axis=1)
  if key in ('CONV_2D', 'CONV_2D_TRANSPOSE'):
    return a.sum(axis=(1, 2, 3)) if key == 'CONV_2D' else np.full(w.shape[0], a.sum())
  if key == 'DEPTHWISE_CONV_2D':
    return a.sum(axis=(0, 1, 2))
  if key == 'BATCH_MATMUL':
    return a.sum(axis=-1 if adj_y else -2)
  return np.array([a.sum()])


def check_case(qt, mb, out, feed, inp, dist, ratios):
  """all C06 checks on one (input model, quantized output); returns (violations, #rewritten constants)"""
  viol = []
  m_in, m_out = og.read(mb), og.read(out)
  res = os_.resolve_ops(qt, m_in)
  # ---- decode rewritten constants, build the reference model ----
  m_ref = copy.deepcopy(m_in)
  rewritten = {}
  bad_decode = False
  for gi, (gin, gout) in enumerate(zip(m_in.subgraphs, m_out.subgraphs)):
    for ti, tin in enumerate(gin.tensors):
      tout = gout.tensors[ti]
      if og.is_const(m_in, tin) and tin.type == F32 and tout.type != F32:
        v = dequantized(tout, m_out)
        if v is None:
          bad_decode = True
          continue
        rewritten[(gi, ti)] = v
        # the constant the float ops see must be THE dequantized image the recipe
        # prescribes: within half a step (asymmetric: one step) of the original,
        # the step being the reference one (range / number of steps, range floored at 1e-4)
        q_ = os_.tq(tout)
        bits_ = {os_.I4: 4, os_.I8: 8}.get(tout.type)
        if q_ is not None and bits_ and tout.type != os_.F16:
          sc_, zp_, qd_ = q_
          orig_ = np.frombuffer(bytes(os_.bdata(m_in, tin)), dtype=np.float32).reshape([int(x) for x in tin.shape]).astype(np.float64)
          if orig_.size and np.all(np.isfinite(orig_)):
            if len(sc_) > 1 and 0 <= qd_ < orig_.ndim and len(sc_) == orig_.shape[qd_]:
              axes_ = tuple(a for a in range(orig_.ndim) if a != qd_)
              mn_, mx_ = np.min(orig_, axis=axes_, keepdims=True), np.max(orig_, axis=axes_, keepdims=True)
            else:
              mn_, mx_ = np.min(orig_), np.max(orig_)
            if not np.any(zp_):
              ref_step = np.maximum(np.maximum(np.abs(mn_), np.abs(mx_)), 1e-4) / (2 ** (bits_ - 1) - 1)
              allowed_ = 0.5 * ref_step
            else:
              ref_step = np.maximum(np.maximum(mx_, 0) - np.minimum(mn_, 0), 1e-4) / (2 ** bits_ - 1)
              allowed_ = 1.0 * ref_step
            err_ = np.abs(v.astype(np.float64) - orig_)
            if np.any(err_ > allowed_ * (1 + 1e-3) + 1e-12):
              viol.append({'key': 'C06:constant-not-the-prescribed-dequantized-value', 'what':
                           f'sg{gi} {og.tname(tin)}: the stored constant dequantizes up to '
                           f'{float(np.max(err_ / np.maximum(ref_step, 1e-300))):.2f} reference steps away from the '
                           f'original (stored scale {sc_.tolist()[:3]}, reference step {np.asarray(ref_step).flatten().tolist()[:3]})',
                           'input': inp})
        b = S.BufferT()
        b.data = np.frombuffer(np.ascontiguousarray(v.astype(np.float32)).tobytes(), dtype=np.uint8)
        m_ref.buffers.append(b)
        m_ref.subgraphs[gi].tensors[ti].buffer = len(m_ref.buffers) - 1
  if bad_decode:
    dist['undecodable'] += 1
    return viol, 0      # C05's business
  if not rewritten:
    dist['nothing_rewritten'] += 1
    return viol, 0
  try:
    rq = run_all(out, feed)
    rr = run_all(bytes(FU.convert_object_to_bytearray(m_ref)), feed)
  except Exception as e:  # pylint: disable=broad-except
    viol.append({'key': 'C06:interpreter-error', 'what': f'{type(e).__name__}: {str(e)[:200]}', 'input': inp})
    return viol, 0
  sig_of = {int(sd.subgraphIndex): sd.signatureKey.decode() for sd in m_in.signatureDefs}
  has_drq = any(mode == 'dynamic' for ops, _, _ in res for (_, mode, _) in ops)
  # ---- end to end (no dynamic-range op) ----
  if not has_drq:
    dist['end_to_end'] += 1
    for key in feed:
      for nm, v in rr[key][1].items():
        w = rq[key][1][nm]
        if not np.allclose(w, v, rtol=1e-5, atol=1e-6, equal_nan=True):
          viol.append({'key': 'C06:output-differs', 'what':
                       f'{key}/{nm}: max |quantized - reference| = {float(np.max(np.abs(w - v))):.3g} '
                       f'(max |reference| {float(np.max(np.abs(v))):.3g})', 'input': inp})
  # ---- op level ----
  for gi, gin in enumerate(m_in.subgraphs):
    key = sig_of.get(gi)
    if key is None or key not in rq:
      continue
    tens = rq[key][0]
    for kk, o in enumerate(gin.operators):
      opk, mode, cfg = res[gi][0][kk]
      consts = {int(x): rewritten[(gi, int(x))] for x in o.inputs if (gi, int(x)) in rewritten}
      if not consts or opk is None:
        continue
      try:
        smb, in_names, out_names = single_op_model(m_in, gi, kk, consts)
        feed1 = {nm: tens[nm] for nm in in_names}
        if any(v.dtype != np.float32 and v.dtype != np.int32 for v in feed1.values()):
          continue
        yref = run_plain(smb, feed1)
      except Exception as e:  # pylint: disable=broad-except
        dist['op_level_skipped:' + type(e).__name__] += 1
        continue
      dist['op_level:' + mode] += 1
      for nm in out_names:
        if nm not in tens:
          continue
        yq, yr = tens[nm].astype(np.float64), yref[nm].astype(np.float64)
        if mode == 'dynamic':
          if opk == 'EMBEDDING_LOOKUP':
            lim = 1e-6 + 1e-5 * np.abs(yr)
          else:
            xs = [np.abs(v).max() for v in feed1.values() if v.dtype == np.float32 and v.size]
            wkey = [x for x in consts if gin.tensors[x].shape is not None and len(gin.tensors[x].shape) >= 2]
            if not xs or not wkey:
              continue
            adj = bool(opk == 'BATCH_MATMUL' and o.builtinOptions is not None and o.builtinOptions.adjY)
            l1 = l1_per_output(opk, consts[wkey[0]], adj)
            lim = l1 * float(max(xs)) / 254.0 * 1.05 + 1e-5 * np.abs(yr) + 1e-6
          ok = np.all(np.abs(yq - yr) <= lim)
          ratios.append(float(np.max(np.abs(yq - yr) / np.maximum(lim, 1e-30))))
          gran = str(getattr(cfg.weight_tensor_config.granularity, 'value', cfg.weight_tensor_config.granularity))
          kname = f'C06:dynamic-range-bound:{opk}:{gran}'
        else:
          ok = np.allclose(yq, yr, rtol=1e-5, atol=1e-6, equal_nan=True)
          kname = f'C06:op-differs:{opk}:{mode}'
        if not ok:
          viol.append({'key': kname, 'what':
                       f'sg{gi} op{kk} {opk} ({mode}) {nm}: max |quantized - float op on dequantized constants| = '
                       f'{float(np.max(np.abs(yq - yr))):.4g}' +
                       (f', bound {float(np.max(lim)):.4g}' if mode == 'dynamic' else ''), 'input': inp})
  return viol, len(rewritten)


shared_weight_model = gg.shared_weight_model


def main():
  out_path = sys.argv[1]
  tier = os.environ.get('VERIF_TIER', 'quick')
  seed = int(os.environ.get('VERIF_SEED', '0'))
  rng = random.Random(seed * 179424673 % (2 ** 31) + 43)
  t0 = time.time()
  n_models = 2000 if tier == 'thorough' else 200
  viol = []
  dist = collections.Counter()
  nontrivial = set()
  samples = []
  ratios = []
  ncfg = gr.named_configs()
  ship = gr.shipped()
  wops = ['FULLY_CONNECTED'] * 4 + ['CONV_2D', 'DEPTHWISE_CONV_2D', 'BATCH_MATMUL', 'EMBEDDING_LOOKUP',
                                     'TRANSPOSE_CONV', 'ADD', 'TANH', 'RELU', 'MUL', 'RESHAPE']
  # corpus first (minimized earlier failures / known findings)
  cdir = os.path.join(os.path.dirname(os.path.dirname(os.path.abspath(__file__))), 'corpus', 'C06')
  if os.path.isdir(cdir):
    for f in sorted(os.listdir(cdir)):
      c = json.load(open(os.path.join(cdir, f)))
      if not (c.get('model_hex') and isinstance(c.get('recipe'), list)):
        continue
      mb = bytes.fromhex(c['model_hex'])
      qt = quantizer.Quantizer(bytearray(mb))
      desc = gr.apply_rules(qt, [tuple(r) for r in c['recipe']])
      dist['corpus'] += 1
      try:
        out = qt.quantize().quantized_model
      except Exception:  # pylint: disable=broad-except
        continue
      crng = random.Random(7)
      data = gg.random_inputs(mb, crng, 1)
      v2, nrew = check_case(qt, mb, out, {key: v[0] for key, v in data.items()},
                            {'recipe': desc, 'corpus': f}, dist, ratios)
      viol += v2
  k = 0
  while k < n_models:
    directed = rng.random() < 0.3
    shared = rng.random() < 0.15
    bmm_sq = (k % 8 == 5)
    if shared:
      # one constant, two consumers, a different float-compute config per consumer
      mb, info = shared_weight_model(rng)
      dist['directed:shared-weight'] += 1
    elif bmm_sq:
      # BATCH_MATMUL with a SQUARE constant right-hand side (the per-channel axis
      # cannot be told from the shape) under a per-channel float-compute config
      gg.BMM_SQUARE_PROB = 1.0
      try:
        mb, info = gg.gen_model(rng, n_subgraphs=1, max_ops=rng.choice([1, 2, 3]),
                                op_weights=['BATCH_MATMUL'] * 5 + ['TANH', 'ADD'])
      finally:
        gg.BMM_SQUARE_PROB = 0.35
      dist['directed:square-bmm'] += 1
    else:
      # every 9th ordinary model also RETURNS one of its constants (a weight that is a graph output)
      gg.CONST_OUTPUT_PROB = 1.0 if k % 9 == 4 else 0.0
      try:
        mb, info = gg.gen_model(rng, max_ops=rng.choice([2, 4, 6]), op_weights=wops if rng.random() < 0.7 else None)
      finally:
        gg.CONST_OUTPUT_PROB = 0.0
    qt = quantizer.Quantizer(bytearray(mb))
    r = rng.random()
    if shared:
      import re as _re
      ca, cb = rng.sample(FLOAT_CFGS, 2)
      desc = gr.apply_rules(qt, [('^' + _re.escape('serving_default/fc0/out;') + '$', '*', ncfg[ca][0], ca),
                                 ('^' + _re.escape('serving_default/fc1/out;') + '$', '*', ncfg[cb][0], cb)])
      if not desc:
        continue
    elif bmm_sq:
      c = rng.choice(['drq8', 'drq8', 'wo8'])
      desc = gr.apply_rules(qt, [('.*', '*', ncfg[c][0], c)])
      if not desc:
        continue
    elif r < 0.3:
      desc = rng.choice(['default_af32w8float_recipe', 'default_af32w4float_recipe', 'dynamic_wi8_afp32_recipe'])
      qt.load_quantization_recipe(copy.deepcopy(ship[desc]))
    else:
      # uniform ('.*', '*') or per-op mixed rules over the float-compute configs
      scopes = gr.model_scopes(mb)
      present = sorted(set(x for x, _ in scopes if x))
      rules = []
      if r < 0.6:
        c = rng.choice(FLOAT_CFGS)
        rules.append(('.*', '*', ncfg[c][0], c))
      else:
        for _ in range(rng.choice([2, 3])):
          c = rng.choice(FLOAT_CFGS)
          if directed and scopes:
            import re as _re
            rules.append(('^' + _re.escape(rng.choice(scopes)[1]) + '$', '*', ncfg[c][0], c))
          else:
            rules.append(('.*', rng.choice(present + ['*']) if present else '*', ncfg[c][0], c))
      desc = gr.apply_rules(qt, rules)
      if not desc:
        continue
    k += 1
    dist['cases'] += 1
    inp = {'recipe': desc, 'model_hex': mb.hex() if len(mb) < 30000 else None}
    try:
      out = qt.quantize().quantized_model
    except Exception as e:  # pylint: disable=broad-except
      dist['quantize_raises:' + cg.classify_raise(e, og.read(mb))] += 1
      continue
    data = gg.random_inputs(mb, rng, 1, scale=rng.choice([0.5, 1.0, 3.0]))
    feed = {key: v[0] for key, v in data.items()}
    v2, nrew = check_case(qt, mb, out, feed, inp, dist, ratios)
    viol += v2
    if nrew:
      nontrivial.add(out.hex()[:3000])
    has_drq = None
    rewritten = range(nrew)
    if len(samples) < 3:
      samples.append({'recipe': desc, 'rewritten_constants': nrew})
  # ---- probe: EVERY float-compute weight config (4/8 bit x symmetric or not x per
  # channel or per tensor x dynamic-range or weight-only) on the two weight ops whose
  # hybrid / dequantize kernels are simplest: whatever the library ACCEPTS must run and
  # satisfy C06 (configs it refuses are skipped) ----
  from ai_edge_quantizer import qtyping as _q
  for opn, gkind in (('FULLY_CONNECTED', 'FULLY_CONNECTED'), ('EMBEDDING_LOOKUP', 'EMBEDDING_LOOKUP')):
    pm = None
    for _try in range(10):
      cand, _i = gg.gen_model(rng, n_subgraphs=1, max_ops=1, op_weights=[gkind])
      mm = og.read(cand)
      if [mm.operatorCodes[o.opcodeIndex].builtinCode for o in mm.subgraphs[0].operators] == [getattr(gg.B, gkind)]:
        pm = cand
        break
    if pm is None:
      continue
    for bits in (4, 8):
      for sym in (True, False):
        for gran in (_q.QuantGranularity.CHANNELWISE, _q.QuantGranularity.TENSORWISE):
          for dyn in (True, False):
            cfg = _q.OpQuantizationConfig(
                None, _q.TensorQuantizationConfig(bits, sym, gran),
                _q.ComputePrecision.INTEGER if dyn else _q.ComputePrecision.FLOAT, not dyn)
            qt = quantizer.Quantizer(bytearray(pm))
            desc = f'{opn} {"dynamic" if dyn else "weight-only"} {bits} bit {"sym" if sym else "asym"} {gran.value}'
            try:
              qt.update_quantization_recipe('.*', opn, cfg, 'min_max_uniform_quantize')
            except ValueError:
              dist['probe_refused'] += 1
              continue
            dist['probe_accepted'] += 1
            inp = {'recipe': desc, 'model_hex': pm.hex() if len(pm) < 30000 else None}
            try:
              out = qt.quantize().quantized_model
            except Exception as e:  # pylint: disable=broad-except
              viol.append({'key': f'C06:accepted-config-quantize-raises:{opn}', 'what':
                           f'{desc}: accepted, then quantize() raises {type(e).__name__}: {str(e)[:120]}', 'input': inp})
              continue
            data = gg.random_inputs(pm, rng, 1)
            feed = {key: v[0] for key, v in data.items()}
            r_ = og.run_interpreter(out, feed)
            if r_[0] != 'ok':
              viol.append({'key': f'C06:accepted-config-fails-at-runtime:{opn}', 'what':
                           f'{desc}: accepted, but the interpreter fails on the result: {str(r_[1])[:160]}', 'input': inp})
              continue
            v2, _n = check_case(qt, pm, out, feed, inp, dist, ratios)
            viol += v2
  out = {
      'interface': 'oracle:C06-runtime', 'evaluations': dist['cases'],
      'distinct_nontrivial': len(nontrivial), 'n_mismatches': 0, 'mismatches': [],
      'oracle_violations': cg.dedup(viol, 2),
      'violation_counts': dict(collections.Counter(v['key'] for v in viol)),
      'distribution': dict(dist), 'samples': samples, 'wall_s': time.time() - t0,
      'dynamic_error_over_bound': {'max': max(ratios) if ratios else None,
                                   'median': float(np.median(ratios)) if ratios else None, 'n': len(ratios)},
  }
  with open(out_path, 'w') as f:
    json.dump(out, f, indent=1, default=str)
  print(f'oracle C06: {dist["cases"]} cases, violations {dict(collections.Counter(v["key"] for v in viol))}, '
        f'{ {k: v for k, v in dist.items() if k.startswith("op_level") or k == "end_to_end"} }, {time.time() - t0:.0f}s')


if __name__ == '__main__':
  main()
