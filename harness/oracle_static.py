"""Direct oracles on the returned model for C03 (operand dtypes per mode),
C04 (parameters vs the TFLite-spec reference), C05 (stored constants decode to
the originals) and C15 (shared constants consistent).  Independent of the
library's materializers / instruction generator / performer and of the Coq
model: it only uses the recipe resolution (RecipeManager + the quantization-
side scope) and numpy."""
import collections
import copy
import json
import math
import os
import random
import struct
import sys
import time

sys.path.insert(0, os.path.dirname(os.path.abspath(__file__)))
from absl import logging as _l
_l.set_verbosity(_l.ERROR)

import numpy as np
from ai_edge_quantizer import quantizer
from ai_edge_quantizer.utils import tfl_flatbuffer_utils as tfu
import gen_graph as gg
import gen_recipe as gr
import oracle_graph as og
import corr_graph as cg

F32, F16, I32, I64, I16, I8, I4 = 0, 1, 2, 4, 7, 9, 17
QUANTIZE, DEQUANTIZE = 114, 6
INT_OF_BITS = {4: I4, 8: I8, 16: I16, 32: I32, 64: I64}
WEIGHT_OPS = {'FULLY_CONNECTED', 'CONV_2D', 'BATCH_MATMUL', 'EMBEDDING_LOOKUP',
              'DEPTHWISE_CONV_2D', 'CONV_2D_TRANSPOSE'}
BIAS_SLOT = {'FULLY_CONNECTED': 2, 'CONV_2D': 2, 'DEPTHWISE_CONV_2D': 2,
             'CONV_2D_TRANSPOSE': 3}
WEIGHT_SLOT = {'FULLY_CONNECTED': 1, 'CONV_2D': 1, 'DEPTHWISE_CONV_2D': 1,
               'CONV_2D_TRANSPOSE': 1, 'EMBEDDING_LOOKUP': 1}
SAME_AS_INPUT = {'RESHAPE': 0, 'TRANSPOSE': 0, 'SPLIT': 1, 'STRIDED_SLICE': 0,
                 'AVERAGE_POOL_2D': 0}
FIXED = {'SOFTMAX': {8: (1.0 / 256, -128), 16: (1.0 / 32768, 0)},
         'LOGISTIC': {8: (1.0 / 256, -128), 16: (1.0 / 32768, 0)},
         'TANH': {8: (1.0 / 128, 0), 16: (1.0 / 32768, 0)}}
QDIM = {'FULLY_CONNECTED': 0, 'CONV_2D': 0, 'DEPTHWISE_CONV_2D': 3,
        'CONV_2D_TRANSPOSE': 0, 'EMBEDDING_LOOKUP': 0}


def mode_of(alg, cfg):
  alg = str(getattr(alg, 'value', alg))
  if alg == 'no_quantize':
    return 'none'
  if alg == 'float_casting':
    return 'fp16'
  prec = str(getattr(cfg.compute_precision, 'value', cfg.compute_precision))
  if prec == 'INTEGER':
    return 'static' if cfg.activation_tensor_config is not None else 'dynamic'
  return 'weight_only'


def spec_resolve(recipe, op_key, scope):
  """Documented resolution, computed from the exported rule list only (scopes
  in first-insertion order, rules in order, last applicable rule wins) with
  re.search and the library's SUPPORT CHECK — not with the manager's resolver."""
  import re
  from ai_edge_quantizer import algorithm_manager
  from ai_edge_quantizer import qtyping
  res = ('no_quantize', None)
  for r in recipe:
    if not re.search(r['regex'], scope):
      continue
    if r['operation'] != '*' and r['operation'] != op_key:
      continue
    alg = r['algorithm_key']
    cfg = None
    if alg != 'no_quantize':
      try:
        cfg = qtyping.OpQuantizationConfig.from_dict(r['op_config'])
        algorithm_manager.check_op_quantization_config(alg, op_key, cfg)
      except (ValueError, KeyError):
        continue
      # independent NECESSARY condition for "the op supports the config" (the
      # runtime's contract, not the library's policy table): activations are
      # quantized per tensor -- no TFLite kernel takes per-channel activations;
      # such a config is unsupported for every operator unless the caller
      # switched the checks off
      a = cfg.activation_tensor_config
      if a is not None and not cfg.skip_checks and \
          str(getattr(a.granularity, 'value', a.granularity)) != 'TENSORWISE':
        continue
    res = (alg, cfg)
  return res


def resolve_ops(qt, m, entered=None):
  """per subgraph: list of (key, mode, cfg) for the real ops + INPUT/OUTPUT.
  entered: the accepted rule entries in the order they were made; the recipe
  they denote is rebuilt with the documented edit model (gen_recipe.edit_model)
  instead of being read back from the manager."""
  if entered is not None:
    recipe = json.loads(json.dumps(gr.edit_model(entered), default=lambda o: getattr(o, 'value', str(o))))
  else:
    recipe = json.loads(json.dumps(qt.get_quantization_recipe()))
  out = []
  for g in m.subgraphs:
    ops = []
    for o in g.operators:
      code = m.operatorCodes[o.opcodeIndex].builtinCode
      key = tfu.TFL_OP_CODE_TO_NAME.get(code)
      if key is None:
        ops.append((None, 'none', None))
        continue
      scope = ''.join(og.tname(g.tensors[x]) + ';' for x in o.outputs if x != -1)
      alg, cfg = spec_resolve(recipe, key.value, scope)
      ops.append((key.value, mode_of(alg, cfg), cfg))
    isc = ''.join(og.tname(g.tensors[x]) + ';' for x in g.inputs)
    a1, c1 = spec_resolve(recipe, 'INPUT', isc)
    a2, c2 = spec_resolve(recipe, 'OUTPUT', '')
    out.append((ops, ('INPUT', mode_of(a1, c1), c1), ('OUTPUT', mode_of(a2, c2), c2)))
  return out


def tq(t):
  q = t.quantization
  if q is None or q.scale is None or len(q.scale) == 0:
    return None
  return (np.array(q.scale, dtype=np.float32), np.array(q.zeroPoint, dtype=np.int64),
          int(q.quantizedDimension))


def qeq(a, b):
  if a is None or b is None:
    return a is b
  return (a[0].shape == b[0].shape and np.array_equal(a[0], b[0]) and
          np.array_equal(a[1], b[1]) and a[2] == b[2])


def ref_zp_scale(mn, mx, bits, sym):
  """TFLite-spec reference, float32 like the runtime's parameters."""
  qmin, qmax = -(2 ** (bits - 1)), 2 ** (bits - 1) - 1
  mn = np.asarray(mn, dtype=np.float64)
  mx = np.asarray(mx, dtype=np.float64)
  if sym:
    bound = np.maximum(np.maximum(np.abs(mn), np.abs(mx)), 1e-4)
    return np.zeros(bound.shape, dtype=np.int64).flatten(), (bound / qmax).flatten()
  bmax = np.maximum(mx, 0.0)
  bmin = np.minimum(mn, 0.0)
  bound = np.maximum(bmax - bmin, 1e-4)
  scale = bound / (qmax - qmin)
  return np.rint(qmin - bmin / scale).astype(np.int64).flatten(), scale.flatten()


def close_params(q, ref_zp, ref_scale):
  sc, zp, _ = q
  if sc.shape != ref_scale.shape:
    return False
  if not np.allclose(sc.astype(np.float64), ref_scale, rtol=2e-6, atol=0):
    return False
  return bool(np.all(np.abs(zp - ref_zp) <= 1))      # ties may round either way in float32


def decode(t, data_bytes):
  n = int(np.prod(t.shape)) if len(t.shape) else 1
  raw = np.frombuffer(data_bytes, dtype=np.uint8)
  if t.type == I4:
    want = (n + 1) // 2
    if len(raw) != want:
      return None, f'int4 buffer has {len(raw)} bytes, expected {want}'
    lo = (raw & 0x0F).astype(np.int16)
    hi = (raw >> 4).astype(np.int16)
    vals = np.empty(2 * len(raw), dtype=np.int16)
    vals[0::2] = lo
    vals[1::2] = hi
    vals = np.where(vals >= 8, vals - 16, vals)[:n]
    return vals.astype(np.int64).reshape(t.shape), None
  dt = {I8: np.int8, I16: np.int16, I32: np.int32, I64: np.int64, F16: np.float16,
        F32: np.float32}.get(t.type)
  if dt is None:
    return None, f'unexpected dtype {t.type}'
  if len(raw) != n * np.dtype(dt).itemsize:
    return None, f'buffer has {len(raw)} bytes, expected {n * np.dtype(dt).itemsize}'
  return np.frombuffer(data_bytes, dtype=dt).reshape(t.shape), None


def bdata(m, t):
  b = m.buffers[t.buffer]
  return None if b.data is None or len(b.data) == 0 else bytes(np.asarray(b.data, dtype=np.uint8).tobytes())


def check_case(qt, mb, out_bytes, stats, desc):
  """returns list of {'key','what'}"""
  bad = []
  m_in, m_out = og.read(mb), og.read(out_bytes)
  entered = None
  if isinstance(desc, list):                 # rule entries made through update_quantization_recipe
    entered = gr.entered_rules([tuple(r) for r in desc])
  elif isinstance(desc, str) and desc in gr.shipped():
    entered = gr.shipped()[desc]              # a shipped recipe file, loaded unchanged
  res = resolve_ops(qt, m_in, entered)

  def V(key, what):
    bad.append({'key': key, 'what': what})
  for gi, (gin, gout) in enumerate(zip(m_in.subgraphs, m_out.subgraphs)):
    ops_info, inp_info, outp_info = res[gi]
    n_orig = len(gin.tensors)
    # original ops of the output graph in order (inserted ops write new tensors)
    orig_ops = [o for o in gout.operators
                if not (len(o.outputs) == 1 and int(o.outputs[0]) >= n_orig)]
    ins_ops = [o for o in gout.operators
               if (len(o.outputs) == 1 and int(o.outputs[0]) >= n_orig)]
    if len(orig_ops) != len(gin.operators):
      continue      # C02's business
    producer = {}
    for o in gout.operators:
      for x in o.outputs:
        producer[int(x)] = o

    def base(x):
      """original tensor index a (possibly inserted) tensor derives from"""
      seen = 0
      while x >= n_orig and seen < 10:
        x = int(producer[x].inputs[0])
        seen += 1
      return x

    def is_const_in(x):
      return x < n_orig and og.is_const(m_in, gin.tensors[x])
    # ---------- inserted Q/DQ ops convert between sensible dtypes (C03) ----------
    for o in ins_ops:
      code = m_out.operatorCodes[o.opcodeIndex].builtinCode
      ti, to = gout.tensors[int(o.inputs[0])], gout.tensors[int(o.outputs[0])]
      if code == DEQUANTIZE and not (ti.type in (I4, I8, I16, F16) and to.type == F32):
        V('C03:dequantize-dtypes', f'sg{gi} DEQUANTIZE {ti.type}->{to.type} ({og.tname(to)})')
      if code == QUANTIZE and not (ti.type in (F32, I8, I16) and to.type in (I8, I16)):
        V('C03:quantize-dtypes', f'sg{gi} QUANTIZE {ti.type}->{to.type} ({og.tname(to)})')
      if code == QUANTIZE and tq(to) is None or code == DEQUANTIZE and ti.type != F16 and tq(ti) is None:
        V('C03:qdq-missing-params', f'sg{gi} {og.tname(to)}')
    # ---------- per operand expectations (C03) and parameter rules (C04) ----------
    prev_slot = None
    for k, (oin, oout) in enumerate(zip(gin.operators, orig_ops)):
      key, mode, cfg = ops_info[k]
      abits = cfg.activation_tensor_config.num_bits if cfg is not None and \
          cfg.activation_tensor_config is not None else None
      wcfg = cfg.weight_tensor_config if cfg is not None else None
      for slot, (xi, xo) in enumerate(zip(oin.inputs, oout.inputs)):
        xi, xo = int(xi), int(xo)
        if xi == -1:
          continue
        # C15: a wrong representation handed to a consumer of a SHARED constant
        # (one tensor with several readers, or several tensors on one buffer)
        # is also a failure to "quantize consistently or reject"
        if prev_slot is not None and len(bad) > prev_slot[0] and prev_slot[1]:
          V('C15:shared-constant-consumer-mismatch', bad[prev_slot[0]]['what'])
        tin, tout = gin.tensors[xi], gout.tensors[xo]
        const = is_const_in(xi)
        shared_const = const and tin.type == F32 and (
            sum(1 for o2 in gin.operators for y in o2.inputs if int(y) == xi) > 1 or
            sum(1 for g2 in m_in.subgraphs for t2 in g2.tensors if t2.buffer == tin.buffer) > 1)
        prev_slot = (len(bad), shared_const)
        where = f'sg{gi} op{k} {key} input{slot} ({og.tname(tout)})'
        if tin.type != F32:
          if tout.type != tin.type or xo != xi or tq(tout) is not None:
            V('C03:nonfloat-operand-touched', where)
          continue
        is_bias = key in BIAS_SLOT and slot == BIAS_SLOT[key]
        if mode == 'none' or key is None:
          if tout.type != F32:
            V('C03:noquant-op-reads-nonfloat', f'{where} dtype {tout.type}')
          continue
        if mode == 'static':
          if is_bias:
            want = I64 if abits == 16 else I32
          elif const and key in WEIGHT_OPS:
            want = INT_OF_BITS[wcfg.num_bits]
          else:
            want = INT_OF_BITS[abits]
          if tout.type != want:
            V('C03:static-operand-dtype', f'{where}: dtype {tout.type}, expected {want}')
        elif mode == 'dynamic':
          if const and not is_bias:
            if tout.type != INT_OF_BITS[wcfg.num_bits] or xo != xi:
              V('C03:dynamic-weight-dtype', f'{where}: dtype {tout.type}')
          elif tout.type != F32:
            V('C03:dynamic-activation-dtype', f'{where}: dtype {tout.type}')
        elif mode in ('weight_only', 'fp16'):
          is_w = (const and not is_bias) if mode == 'weight_only' else \
              (slot == WEIGHT_SLOT.get(key))
          if tout.type != F32:
            V('C03:float-compute-reads-nonfloat', f'{where}: dtype {tout.type}')
          elif is_w:
            p = producer.get(xo)
            okp = (p is not None and m_out.operatorCodes[p.opcodeIndex].builtinCode == DEQUANTIZE)
            src = gout.tensors[int(p.inputs[0])] if okp else None
            wantt = (F16,) if mode == 'fp16' else (INT_OF_BITS[wcfg.num_bits],)
            if not okp or src.type not in wantt:
              V('C03:weight-not-behind-dequantize', where)
      for slot, (yi, yo) in enumerate(zip(oin.outputs, oout.outputs)):
        tin, tout = gin.tensors[int(yi)], gout.tensors[int(yo)]
        where = f'sg{gi} op{k} {key} output{slot} ({og.tname(tout)})'
        if tin.type != F32:
          if tout.type != tin.type or tq(tout) is not None:
            V('C03:nonfloat-operand-touched', where)
          continue
        if mode == 'static':
          if tout.type != INT_OF_BITS[abits]:
            V('C03:static-operand-dtype', f'{where}: dtype {tout.type}, expected {INT_OF_BITS[abits]}')
        elif tout.type != F32:
          V('C03:float-op-writes-nonfloat', f'{where}: dtype {tout.type}')
      if prev_slot is not None and len(bad) > prev_slot[0] and prev_slot[1]:
        V('C15:shared-constant-consumer-mismatch', bad[prev_slot[0]]['what'])
      prev_slot = None
      # ----- C04 op-level rules (static ops) -----
      if mode != 'static' or key is None:
        continue
      sym_a = cfg.activation_tensor_config.symmetric

      def qin(slot):
        return tq(gout.tensors[int(oout.inputs[slot])])
      qo = [tq(gout.tensors[int(y)]) for y in oout.outputs]
      if key in SAME_AS_INPUT:
        s = SAME_AS_INPUT[key]
        for y, q in zip(oout.outputs, qo):
          if gin.tensors[int(oin.outputs[0])].type == F32 and not qeq(q, qin(s)):
            V('C04:same-scale-output', f'sg{gi} op{k} {key}: output parameters differ from the input\'s')
      elif key == 'CONCATENATION':
        for slot in range(len(oout.inputs)):
          if not qeq(qin(slot), qo[0]):
            V('C04:concat-input-scale', f'sg{gi} op{k}: input{slot} parameters differ from the output\'s')
      if key in FIXED and qo[0] is not None:
        sc, zp = FIXED[key][abits]
        if not (len(qo[0][0]) == 1 and float(qo[0][0][0]) == float(np.float32(sc)) and int(qo[0][1][0]) == zp):
          V('C04:fixed-output-range', f'sg{gi} op{k} {key}: {qo[0][0].tolist()} {qo[0][1].tolist()}')
      if key in BIAS_SLOT and BIAS_SLOT[key] < len(oout.inputs) and int(oout.inputs[BIAS_SLOT[key]]) != -1:
        islot = 2 if key == 'CONV_2D_TRANSPOSE' else 0
        qb, qi_, qw = qin(BIAS_SLOT[key]), qin(islot), qin(1)
        if qb is not None and qi_ is not None and qw is not None and np.all(np.isfinite(qi_[0])):
          want = (qi_[0] * qw[0]).astype(np.float32).flatten()
          got = qb[0].flatten()
          # the stored bias scale is float32(input_scale * weight_scale) where the
          # library may still hold the input scale in binary64 (scales derived from a
          # fixed-range producer): either rounding of the exact product is accepted
          ref = want if len(got) == len(want) else want[:1]
          ok = len(got) in (1, len(want)) and bool(np.all(
              np.abs(got.astype(np.float64) - ref.astype(np.float64)) <= np.spacing(np.abs(ref)).astype(np.float64)))
          if not (ok and not np.any(qb[1])):
            V('C04:bias-scale', f'sg{gi} op{k} {key}: bias scale != input scale * weight scale or zp != 0')
      # activation operands vs reference formula on the statistics
      if stats:
        for slot, xo in enumerate(oout.inputs):
          xo = int(xo)
          if xo == -1 or gin.tensors[int(oin.inputs[slot])].type != F32:
            continue
          if is_const_in(int(oin.inputs[slot])):
            continue
          if key == 'CONCATENATION':
            continue     # inputs share the output's parameters
          nm = og.tname(gin.tensors[base(xo)])
          if nm not in stats:
            continue
          q = tq(gout.tensors[xo])
          if q is None:
            continue
          # which statistics: follow same-scale producers back (static ones only)
          src = base(xo)
          hops = 0
          while hops < 20:
            pk = next((j for j, oo in enumerate(gin.operators) if src in [int(z) for z in oo.outputs]), None)
            if pk is None:
              break
            pkey, pmode, _ = ops_info[pk]
            if pmode == 'static' and pkey in SAME_AS_INPUT and gin.tensors[src].type == F32:
              src = int(gin.operators[pk].inputs[SAME_AS_INPUT[pkey]])
              hops += 1
              continue
            break
          pk = next((j for j, oo in enumerate(gin.operators) if src in [int(z) for z in oo.outputs]), None)
          if pk is not None and ops_info[pk][1] == 'static' and ops_info[pk][0] in FIXED:
            # a consumer of a FIXED-range producer derives its parameters from the range
            # the producer's fixed parameters can represent (not from the calibrated one)
            pcfg = ops_info[pk][2].activation_tensor_config
            pb = pcfg.num_bits
            fsc, fzp = FIXED[ops_info[pk][0]][pb]
            fmin = (-(2 ** (pb - 1)) - fzp) * float(np.float32(fsc))
            fmax = ((2 ** (pb - 1) - 1) - fzp) * float(np.float32(fsc))
            if pcfg.symmetric:
              fmin = -fmax
            rz, rs = ref_zp_scale(np.array([fmin]), np.array([fmax]), abits, sym_a)
            if not close_params(q, rz, rs):
              V('C04:fixed-range-consumer-params', f'sg{gi} op{k} {key} input{slot} ({og.tname(gout.tensors[xo])}): '
                f'scale {q[0].tolist()} zp {q[1].tolist()} vs {rs.tolist()} {rz.tolist()} derived from the fixed '
                f'range of {ops_info[pk][0]} [{fmin}, {fmax}]')
            continue
          snm = og.tname(gin.tensors[src])
          if snm not in stats:
            continue
          rz, rs = ref_zp_scale(stats[snm]['min'], stats[snm]['max'], abits, sym_a)
          if not close_params(q, rz, rs):
            V('C04:activation-params', f'sg{gi} op{k} {key} input{slot} ({og.tname(gout.tensors[xo])}): '
              f'scale {q[0].tolist()} zp {q[1].tolist()} vs reference {rs.tolist()} {rz.tolist()} '
              f'from statistics of {snm}')
    # ---------- every quantized tensor (C04 general clauses) ----------
    for ti, t in enumerate(gout.tensors):
      q = tq(t)
      if q is None:
        continue
      sc, zp, qd = q
      nm = og.tname(t)
      if not (np.all(np.isfinite(sc)) and np.all(sc > 0)):
        # F25: a calibrated statistic that is itself +-inf/NaN (an activation
        # overflowed during calibration) yields a non-finite scale; keyed apart
        # so that a non-finite scale from FINITE statistics is still reported
        bnm = og.tname(gout.tensors[base(ti)]) if ti in producer or ti < n_orig else nm
        st = (stats or {}).get(bnm)
        nonfin = st is not None and not (np.all(np.isfinite(st['min'])) and np.all(np.isfinite(st['max'])))
        if not nonfin and t.type in (I32, I64) and stats:
          # a bias: its scale is input scale x weight scale; non-finite when the INPUT's statistic is
          nonfin = any(not (np.all(np.isfinite(v_['min'])) and np.all(np.isfinite(v_['max'])))
                       for v_ in stats.values() if v_)
        V('C04:scale-not-finite-positive' + (':nonfinite-statistic' if nonfin else ''),
          f'sg{gi} {nm}: {sc.tolist()[:4]}' + (f' (statistics of {bnm}: {st})' if nonfin else ''))
      bits = {I4: 4, I8: 8, I16: 16, I32: 32, I64: 64}.get(t.type)
      if bits is None:
        V('C04:quantized-tensor-dtype', f'sg{gi} {nm}: dtype {t.type} carries quantization')
        continue
      if len(sc) != len(zp):
        V('C04:scale-zp-length', f'sg{gi} {nm}')
      if np.any(zp < -(2 ** (bits - 1))) or np.any(zp > 2 ** (bits - 1) - 1):
        V('C04:zero-point-range', f'sg{gi} {nm}: {zp.tolist()[:4]}')
      if len(sc) > 1:
        if not (0 <= qd < len(t.shape) and len(sc) == int(t.shape[qd])):
          V('C04:per-channel-length', f'sg{gi} {nm}: {len(sc)} scales, shape {list(t.shape)}, qdim {qd}')
        # per-channel only on a weight operand, on the kernel's dimension
        users = [(k2, s2) for k2, oo in enumerate(orig_ops) for s2, x in enumerate(oo.inputs)
                 if int(x) == ti]
        for k2, s2 in users:
          key2 = ops_info[k2][0]
          if t.type in (I32, I64):
            continue      # bias
          if key2 == 'BATCH_MATMUL':
            adj = gin.operators[k2].builtinOptions.adjY
            wantd = len(t.shape) - 2 if adj else len(t.shape) - 1
          else:
            wantd = QDIM.get(key2)
          if key2 not in WEIGHT_OPS or wantd != qd or (key2 in WEIGHT_SLOT and s2 != WEIGHT_SLOT[key2]):
            V('C04:per-channel-placement', f'sg{gi} {nm}: per-channel (qdim {qd}) parameters on '
              f'{key2} operand {s2}')
    # ---------- rewritten constants (C05) and shared buffers (C15) ----------
    for ti in range(n_orig):
      tin, tout = gin.tensors[ti], gout.tensors[ti]
      if not og.is_const(m_in, tin):
        continue
      din, dout = bdata(m_in, tin), bdata(m_out, tout)
      nm = og.tname(tin)
      if tin.type != F32:
        if din != dout:
          V('C03:nonfloat-constant-changed', f'sg{gi} {nm}')
        continue
      if tout.type == F32:
        if din != dout:
          V('C15:float-tensor-on-rewritten-buffer', f'sg{gi} {nm}: tensor stays float32 but its buffer '
            f'bytes changed ({len(din)} -> {len(dout) if dout else 0} bytes)')
        continue
      orig = np.frombuffer(din, dtype=np.float32).reshape(tin.shape)
      vals, err = decode(tout, dout or b'')
      if err:
        V('C05:stored-length', f'sg{gi} {nm}: {err}')
        continue
      if tout.type == F16:
        def rne16(x):
          # IEEE round-to-nearest-even to binary16 (struct refuses exactly the
          # values whose rounding overflows: those round to +-inf)
          try:
            return struct.unpack('<e', struct.pack('<e', float(x)))[0]
          except OverflowError:
            return float('inf') if x > 0 else float('-inf')
        want = np.array([rne16(x) for x in orig.flatten()], dtype=np.float16).reshape(orig.shape)
        if not np.array_equal(vals.view(np.uint16), want.view(np.uint16)):
          V('C05:float16-not-rne', f'sg{gi} {nm}')
        continue
      q = tq(tout)
      if q is None:
        V('C05:integer-constant-without-params', f'sg{gi} {nm}')
        continue
      sc, zp, qd = q
      shape = [1] * orig.ndim
      if len(sc) > 1:
        if not (0 <= qd < orig.ndim and len(sc) == orig.shape[qd] and len(zp) == len(sc)):
          V('C05:parameters-do-not-fit-the-tensor', f'sg{gi} {nm}: {len(sc)} scales / {len(zp)} zero points '
            f'for shape {list(orig.shape)}, quantized dimension {qd}: the stored codes cannot be decoded')
          continue
        shape[qd] = len(sc)
      s_b = sc.astype(np.float64).reshape(shape) if orig.ndim else sc.astype(np.float64)[0]
      z_b = zp.astype(np.float64).reshape(shape) if orig.ndim else float(zp[0])
      if tout.type in (I32, I64):
        ratio = orig.astype(np.float64) / s_b
        info = np.iinfo(np.int32 if tout.type == I32 else np.int64)
        sat = (np.abs(ratio) >= float(info.max) - 1)
        e = np.abs(vals.astype(np.float64) - ratio)
        if np.any((e > 0.5 + np.abs(ratio) * 2 ** -22 + 1e-9) & ~sat):
          V('C05:bias-not-rounded', f'sg{gi} {nm}: max |q - b/s| = {float(np.max(e)):.4f}')
        continue
      deq = (vals.astype(np.float64) - z_b) * s_b
      errv = np.abs(deq - orig.astype(np.float64))
      symmetric = not np.any(zp)
      # symmetric: half a step; asymmetric: one step (zero forced into the
      # range, zero point rounded); float32 slack made explicit
      step = np.broadcast_to(np.abs(s_b), orig.shape) if orig.ndim else abs(s_b)
      lim = step * (0.5 if symmetric else 1.0) * (1 + 2 ** -10) + np.abs(orig) * 2 ** -22 + 1e-12
      # values outside the representable range (|x| beyond the tensor's own
      # min/max cannot happen: the range comes from the data itself)
      if np.any(errv > lim):
        i = int(np.argmax(errv - lim))
        V('C05:decode-error', f'sg{gi} {nm}: element {i}: original {float(orig.flatten()[i])!r} decodes to '
          f'{float(np.asarray(deq).flatten()[i])!r}, step {float(np.asarray(step).flatten()[i])!r}, '
          f'{"symmetric" if symmetric else "asymmetric"}')
  # ---------- C15: tensors sharing a buffer agree with the bytes ----------
  by_buf = collections.defaultdict(list)
  for gi, g in enumerate(m_out.subgraphs):
    for t in g.tensors:
      if t.buffer and bdata(m_out, t) is not None:
        by_buf[int(t.buffer)].append((gi, t))
  for b, lst in by_buf.items():
    if len(lst) < 2:
      continue
    t0 = lst[0][1]
    for gi, t in lst[1:]:
      if t.type != t0.type or not qeq(tq(t), tq(t0)):
        V('C15:sharers-disagree', f'buffer {b}: {og.tname(t0)} (dtype {t0.type}) vs {og.tname(t)} '
          f'(dtype {t.type}) differ in dtype or parameters')
    for gi, t in lst:
      _, err = decode(t, bdata(m_out, t))
      if err:
        V('C15:bytes-disagree-with-dtype', f'buffer {b} {og.tname(t)}: {err}')
  return bad


def main():
  out_path = sys.argv[1]
  tier = os.environ.get('VERIF_TIER', 'quick')
  seed = int(os.environ.get('VERIF_SEED', '0'))
  rng = random.Random(seed * 32452843 + 11)
  t0 = time.time()
  n_models = 3000 if tier == 'thorough' else 250
  viol = []
  dist = collections.Counter()
  nontrivial = set()
  samples = []
  def directed_shared(n):
    """constants tied across subgraphs x a rule that covers ONE subgraph only
    (weight-only / dynamic / fp16 / static): the sharers need different
    representations -> must be rejected or consistent (C15)"""
    wops = ['FULLY_CONNECTED'] * 5 + ['CONV_2D'] * 2 + ['EMBEDDING_LOOKUP', 'ADD', 'RELU']
    for _ in range(n):
      mb, info = gg.gen_model(rng, n_subgraphs=rng.choice([2, 2, 3]), max_ops=rng.choice([2, 3, 4]),
                              op_weights=wops, force_share=True)
      j = rng.randrange(info['n_subgraphs'])
      qt = quantizer.Quantizer(bytearray(mb))
      cname = rng.choice(['wo8', 'wo8s', 'wo4', 'drq8', 'drq8t', 'fp16', 'a8w8'])
      alg, cfg = gr.named_configs()[cname]
      rules = [(f'sig{j}', rng.choice(['*', 'FULLY_CONNECTED']), alg, cname)]
      desc = gr.apply_rules(qt, rules)
      if not desc:
        continue
      stats = gr.own_stats(mb, gg.random_inputs(mb, rng, 1)) if qt.need_calibration else None
      yield mb, qt, stats, desc, dict(info, real_stats=True, directed='shared-const')

  def directed_overflow(n):
    """calibration data on which a float EXP overflows to +inf (F25)"""
    done = 0
    while done < n:
      mb, info = gg.gen_model(rng, n_subgraphs=1, max_ops=4,
                              op_weights=['EXP', 'EXP', 'FULLY_CONNECTED', 'ADD', 'TANH'])
      qt = quantizer.Quantizer(bytearray(mb))
      desc = gr.apply_rules(qt, [('.*', '*', gr.named_configs()['a8w8'][0], 'a8w8')])
      stats = gr.own_stats(mb, gg.random_inputs(mb, rng, 1, scale=80.0))
      if all(np.all(np.isfinite(v['min'])) and np.all(np.isfinite(v['max'])) for v in stats.values()):
        continue
      done += 1
      yield mb, qt, stats, desc, dict(info, real_stats=True, directed='overflowing-calibration')

  def directed_fp16_range(n):
    """fp16 weight-only on constants around and beyond the float16 range"""
    for _ in range(n):
      saved = gg.CONST_KINDS
      gg.CONST_KINDS = ['huge', 'huge', 'normal', 'tiny']
      try:
        mb, info = gg.gen_model(rng, max_ops=rng.choice([2, 3, 4]),
                                op_weights=['FULLY_CONNECTED', 'CONV_2D', 'DEPTHWISE_CONV_2D',
                                            'EMBEDDING_LOOKUP', 'TRANSPOSE_CONV', 'TANH'])
      finally:
        gg.CONST_KINDS = saved
      qt = quantizer.Quantizer(bytearray(mb))
      desc = gr.apply_rules(qt, [('.*', '*', gr.named_configs()['fp16'][0], 'fp16')])
      if not desc:
        continue
      yield mb, qt, None, desc, dict(info, real_stats=True, directed='fp16-range')

  def directed_same_tensor(n):
    """ONE constant tensor read by two ops whose exactly-scoped rules select
    DIFFERENT representations (int8 / int4 / float16, weight-only / dynamic):
    must be rejected or come out consistent (C15), and an op that is accepted
    must run in the mode its rule selected (C03)"""
    import re as _re
    cfgs = ['wo8', 'wo8s', 'wo4', 'fp16', 'drq8', 'drq8t', 'drq4']
    for _ in range(n):
      mb, info = gg.shared_weight_model(rng)
      qt = quantizer.Quantizer(bytearray(mb))
      ca, cb = rng.sample(cfgs, 2)
      ncfg = gr.named_configs()
      desc = gr.apply_rules(qt, [('^' + _re.escape('serving_default/fc0/out;') + '$', '*', ncfg[ca][0], ca),
                                 ('^' + _re.escape('serving_default/fc1/out;') + '$', '*', ncfg[cb][0], cb)])
      if len(desc) < 2:
        continue
      yield mb, qt, None, desc, dict(info, real_stats=True, directed='same-tensor-two-modes')

  def directed_respec(n):
    """two operation-specific rules under ONE regex, then the first one entered
    again with another config: the second rule must survive the replacement"""
    done = 0
    tries = 0
    while done < n and tries < n * 20:
      tries += 1
      mb, info = gg.gen_model(rng, max_ops=rng.choice([3, 5, 6]),
                              op_weights=['FULLY_CONNECTED', 'CONV_2D', 'EMBEDDING_LOOKUP', 'BATCH_MATMUL',
                                          'DEPTHWISE_CONV_2D', 'TANH', 'ADD'])
      present = sorted(set(k_ for k_, _ in gr.model_scopes(mb) if k_ in
                           ('FULLY_CONNECTED', 'CONV_2D', 'EMBEDDING_LOOKUP', 'BATCH_MATMUL', 'DEPTHWISE_CONV_2D')))
      if len(present) < 2:
        continue
      a, b = rng.sample(present, 2)
      ncfg = gr.named_configs()
      c1, c2, c3 = rng.choice(['wo8', 'drq8']), rng.choice(['wo8', 'drq8', 'fp16']), rng.choice(['wo8s', 'fp16'])
      rg = rng.choice(['.*', '.'])
      qt = quantizer.Quantizer(bytearray(mb))
      desc = gr.apply_rules(qt, [(rg, a, ncfg[c1][0], c1), (rg, b, ncfg[c2][0], c2), (rg, a, ncfg[c3][0], c3)])
      if len(desc) < 3:
        continue
      done += 1
      yield mb, qt, None, desc, dict(info, real_stats=True, directed='respecified-rule')

  def directed_zp0(n):
    """asymmetric constants whose zero point rounds to 0 (range NOT symmetric): the
    stored codes must still use the full asymmetric range [qmin, qmax]"""
    for i in range(n):
      four = (i % 3 == 2)
      saved = gg.CONST_KINDS
      gg.CONST_KINDS = ['zp0_4' if four else 'zp0_8']
      try:
        mb, info = gg.gen_model(rng, n_subgraphs=1, max_ops=rng.choice([2, 3, 4]),
                                op_weights=['FULLY_CONNECTED', 'CONV_2D', 'EMBEDDING_LOOKUP', 'ADD', 'MUL', 'SUB'])
      finally:
        gg.CONST_KINDS = saved
      qt = quantizer.Quantizer(bytearray(mb))
      cname = 'wo4t' if four else rng.choice(['wo8t', 'wo8t', 'a8w8'])
      desc = gr.apply_rules(qt, [('.*', '*', gr.named_configs()[cname][0], cname)])
      if not desc:
        continue
      stats = gr.own_stats(mb, gg.random_inputs(mb, rng, 1)) if qt.need_calibration else None
      yield mb, qt, stats, desc, dict(info, real_stats=True, directed='zero-point-rounds-to-zero')

  def directed_unknown_reader(n):
    """one constant read by an operator the quantizer does not know (stays float) and by
    a statically quantized ADD / MUL: refused, or every reader sees values within a step"""
    for _ in range(n):
      mb, info = gg.unknown_reader_model(rng)
      qt = quantizer.Quantizer(bytearray(mb))
      cname = rng.choice(['a8w8', 'a8sw8', 'a16w8'])
      desc = gr.apply_rules(qt, [('.*', rng.choice(['*', info['kind']]), gr.named_configs()[cname][0], cname)])
      if not desc:
        continue
      stats = gr.own_stats(mb, gg.random_inputs(mb, rng, 1))
      yield mb, qt, stats, desc, dict(info, real_stats=True, directed='constant-read-by-unknown-op')

  def directed_unsupported_star(n):
    """a '*' rule whose config NO operator supports (per-channel activations; a
    '*' rule is not validated when it is added): every operator must resolve to
    no-quantize and stay untouched (C03)"""
    for _ in range(n):
      mb, info = gg.gen_model(rng, n_subgraphs=1, max_ops=rng.choice([1, 2, 4]),
                              op_weights=['FULLY_CONNECTED', 'CONV_2D', 'ADD', 'MUL', 'TANH', 'RESHAPE'])
      qt = quantizer.Quantizer(bytearray(mb))
      ncfg = gr.named_configs()
      desc = gr.apply_rules(qt, [('.*', '*', ncfg['a8cw8'][0], 'a8cw8'),
                                 ('.*', 'INPUT', ncfg['nq'][0], 'nq'), ('.*', 'OUTPUT', ncfg['nq'][0], 'nq')])
      if len(desc) < 3:
        continue
      stats = gr.own_stats(mb, gg.random_inputs(mb, rng, 1))
      yield mb, qt, stats, desc, dict(info, real_stats=True, directed='unsupported-config-through-star-rule')

  def blockwise_check(mb, out_bytes, inputs):
    """the model returned for a BLOCKWISE (op replacement) request: the interpreter
    runs it and every output stays within the analytic weight-rounding bound of
    the float model's (each reader of the constant observes it within a step)"""
    bad = []
    rf = og.run_interpreter(mb, {k: v[0] for k, v in inputs.items()})
    rq = og.run_interpreter(out_bytes, {k: v[0] for k, v in inputs.items()})
    if rf[0] != 'ok':
      return bad
    if rq[0] != 'ok':
      return [{'key': 'C15:blockwise-shared-constant-unloadable', 'what':
               f'quantize() returned a model the interpreter rejects: {str(rq[1])[:200]}'}]
    m_in = og.read(mb)
    g = m_in.subgraphs[0]
    wt = [t for t in g.tensors if og.is_const(m_in, t) and len(t.shape) == 2][0]
    w = np.frombuffer(bytes(m_in.buffers[wt.buffer].data), dtype=np.float32)
    # byte level: an operator that still reads the constant TENSOR directly beside a
    # float activation must find float data of the original shape there
    m_out = og.read(out_bytes)
    go = m_out.subgraphs[0]
    for oi, o in enumerate(go.operators):
      if m_out.operatorCodes[o.opcodeIndex].builtinCode != 9 or len(o.inputs) < 2:   # FULLY_CONNECTED
        continue
      a, c = go.tensors[int(o.inputs[0])], go.tensors[int(o.inputs[1])]
      if og.tname(c) == og.tname(wt) and a.type == F32 and (c.type != F32 or list(c.shape) != list(wt.shape)):
        bad.append({'key': 'C15:float-consumer-reads-integer-bytes', 'what':
                    f'op{oi} FULLY_CONNECTED reads {og.tname(c)} of dtype {c.type} shape {list(c.shape)} '
                    'beside a float activation'})
    x = np.abs(np.asarray(list(inputs.values())[0][0]['x'], dtype=np.float64))
    if x.shape[1] != 1:
      # rows beyond the first: the interpreter's hybrid BATCH_MATMUL with a broadcast
      # constant operand disagrees with the (correct) arithmetic of the emitted
      # pattern -- interpreter numerics, not the quantizer's (DESIGN 11, observation O3)
      return bad
    # weight rounding (half a step of at most max|w|/127 per product) PLUS the
    # hybrid kernel's own dynamic 8-bit quantization of the float operand (half a
    # step of max|x|/127 per product), 5% slack for float32 accumulation
    w2 = np.abs(w.astype(np.float64)).reshape([int(d) for d in wt.shape])
    bound = (float(x.sum(axis=-1).max()) * float(w2.max()) +
             float(w2.sum(axis=-1).max()) * float(x.max())) / 127.0 * 0.51 * 1.05 + 1e-4
    for key in rf[1]:
      for name, yf in rf[1][key].items():
        yq = rq[1][key].get(name)
        if yq is None or yq.shape != yf.shape or not np.all(np.isfinite(yq)) or \
            float(np.max(np.abs(yq - yf))) > bound:
          err = None if yq is None or yq.shape != yf.shape else float(np.max(np.abs(yq - yf)))
          bad.append({'key': 'C15:shared-constant-consumer-mismatch', 'what':
                      f'output {name}: |quantized - float| = {err} > bound {bound:.5f} '
                      '(a reader of the shared constant does not observe it within a step)'})
    return bad

  def directed_blockwise_tied(n):
    """ONE weight tensor read by 1..3 FULLY_CONNECTED ops under a BLOCKWISE weight
    config (op replacement, reachable with skip_checks): refused, or every reader
    observes the constant within a step (C15)"""
    if os.environ.get('VERIF_PROP') != 'C15':
      return
    from ai_edge_quantizer import qtyping as _q
    for i in range(n):
      mb, info = gg.fc3d_tied_model(rng, n_readers=[2, 1, 3][i % 3])
      qt = quantizer.Quantizer(bytearray(mb))
      try:
        qt.update_quantization_recipe(
            '.*', 'FULLY_CONNECTED',
            _q.OpQuantizationConfig(None, _q.TensorQuantizationConfig(
                8, True, _q.QuantGranularity.BLOCKWISE, block_size=rng.choice([4, 8])),
                                    _q.ComputePrecision.FLOAT, True, skip_checks=True),
            'min_max_uniform_quantize')
      except ValueError:
        continue
      inputs = gg.random_inputs(mb, rng, 1)
      yield mb, qt, None, 'blockwise+skip_checks on a weight with %d readers' % [2, 1, 3][i % 3], dict(
          info, real_stats=True, directed='blockwise-tied-weight', only='C15:',
          custom=lambda mb_, ob_, inputs=inputs: blockwise_check(mb_, ob_, inputs))

  def directed_reused_stats(n):
    """ONE calibration result handed to two quantize() calls: first a full
    static recipe (fixed-range outputs of SOFTMAX / LOGISTIC / TANH are planned),
    then a recipe that quantizes other operators only; the parameters of the
    second model must follow the statistics AS CALIBRATED (a pristine copy taken
    before the first call)"""
    done = tries = 0
    while done < n and tries < 20 * n:
      tries += 1
      mb, info = gg.gen_model(rng, n_subgraphs=1, max_ops=rng.choice([2, 3, 5]),
                              op_weights=['LOGISTIC', 'TANH', 'SOFTMAX', 'FULLY_CONNECTED', 'FULLY_CONNECTED', 'ADD', 'MUL'])
      keys = [k_ for k_, _ in gr.model_scopes(mb)]
      fixed = [k_ for k_ in keys if k_ in FIXED]
      other = sorted(set(k_ for k_ in keys if k_ and k_ not in FIXED))
      if not fixed or not other:
        continue
      ncfg = gr.named_configs()
      q1 = quantizer.Quantizer(bytearray(mb))
      if not gr.apply_rules(q1, [('.*', '*', ncfg['a8w8'][0], 'a8w8')]):
        continue
      stats = gr.own_stats(mb, gg.random_inputs(mb, rng, 1))
      pristine = copy.deepcopy(stats)
      try:
        q1.quantize(stats)                      # the caller's object itself
      except Exception:  # pylint: disable=broad-except
        pass
      qt = quantizer.Quantizer(bytearray(mb))
      cname = rng.choice(['a8w8', 'a8sw8'])
      desc = gr.apply_rules(qt, [('.*', rng.choice(other), ncfg[cname][0], cname)])
      if not desc:
        continue
      done += 1
      yield mb, qt, stats, desc, dict(info, real_stats=True, directed='calibration-result-reused-by-a-second-quantize',
                                      check_stats=pristine)

  def directed_same_name_sharers(n):
    """constants tied across subgraphs whose tensors ALSO carry the same name
    (the layer exported under two signatures keeps its variable name) x one
    rule treating all sharers alike: results are keyed by tensor name, so this
    must be refused or every sharer must agree with the rewritten bytes (C15)"""
    if os.environ.get('VERIF_PROP') != 'C15':
      return
    from tensorflow.lite.tools import flatbuffer_utils as _FU
    wops = ['FULLY_CONNECTED'] * 5 + ['CONV_2D'] * 2 + ['EMBEDDING_LOOKUP', 'ADD', 'RELU']
    done = tries = 0
    while done < n and tries < 10 * n:
      tries += 1
      mb, info = gg.gen_model(rng, n_subgraphs=rng.choice([2, 2, 3]), max_ops=rng.choice([2, 3, 4]),
                              op_weights=wops, force_share=True)
      m = _FU.read_model_from_bytearray(bytearray(mb))
      users = collections.defaultdict(list)
      for gi, g in enumerate(m.subgraphs):
        for t in g.tensors:
          if t.buffer and m.buffers[t.buffer].data is not None and len(m.buffers[t.buffer].data) and t.type == 0:
            users[int(t.buffer)].append((gi, t))
      tied = [l for l in users.values() if len(set(gi for gi, _ in l)) > 1]
      if not tied:
        continue
      for l in tied:
        for gi, t in l[1:]:
          if gi != l[0][0]:
            t.name = l[0][1].name
      mb = bytes(_FU.convert_object_to_bytearray(m))
      qt = quantizer.Quantizer(bytearray(mb))
      cname = rng.choice(['wo8', 'wo8s', 'wo4', 'drq8', 'drq8t', 'fp16'])
      alg, cfg = gr.named_configs()[cname]
      desc = gr.apply_rules(qt, [('.*', rng.choice(['*', 'FULLY_CONNECTED']), alg, cname)])
      if not desc:
        continue
      done += 1
      yield mb, qt, None, desc, dict(info, real_stats=True, directed='same-name-sharers', only='C15:')

  import itertools
  for mb, qt, stats, desc, info in itertools.chain(
      cg.gen_cases(rng, n_models), directed_shared(1500 if tier == 'thorough' else 120),
      directed_overflow(12 if tier == 'thorough' else 3),
      directed_fp16_range(300 if tier == 'thorough' else 30),
      directed_same_tensor(400 if tier == 'thorough' else 40),
      directed_respec(200 if tier == 'thorough' else 20),
      directed_same_name_sharers(300 if tier == 'thorough' else 30),
      directed_zp0(300 if tier == 'thorough' else 30),
      directed_unknown_reader(100 if tier == 'thorough' else 12),
      directed_unsupported_star(60 if tier == 'thorough' else 8),
      directed_blockwise_tied(60 if tier == 'thorough' else 9),
      directed_reused_stats(100 if tier == 'thorough' else 10)):
    dist['cases'] += 1
    if info.get('directed'):
      dist['directed:' + info['directed']] += 1
    try:
      res = qt.quantize(copy.deepcopy(stats))
    except Exception as e:  # pylint: disable=broad-except
      dist['raises:' + cg.classify_raise(e)] += 1
      continue
    dist['returned'] += 1
    try:
      if info.get('custom'):
        bad = info['custom'](mb, res.quantized_model)
      else:
        bad = check_case(qt, mb, res.quantized_model, info.get('check_stats', stats), desc)
    except Exception as e:  # pylint: disable=broad-except
      import traceback
      bad = [{'key': 'HARNESS:error', 'what': traceback.format_exc()[-600:]}]
    if info.get('only'):
      bad = [b for b in bad if b['key'].startswith(info['only']) or b['key'].startswith('HARNESS')]
    for b in bad[:4]:
      viol.append(dict(b, input={'recipe': desc, 'case': dist['cases'],
                                 'model_hex': mb.hex() if len(mb) < 20000 else None}))
    if len(res.quantized_model) != len(mb):
      nontrivial.add(res.quantized_model.hex()[:4000])
    if len(samples) < 3:
      samples.append({'recipe': desc, 'violations': [b['key'] for b in bad][:5]})
  harness_err = [v for v in viol if v['key'].startswith('HARNESS')]
  out = {
      'interface': 'oracle:C03/C04/C05/C15', 'evaluations': dist['returned'],
      'distinct_nontrivial': len(nontrivial),
      'n_mismatches': len(harness_err), 'mismatches': harness_err[:3],
      'oracle_violations': cg.dedup([v for v in viol if not v['key'].startswith('HARNESS')], 2),
      'violation_counts': dict(collections.Counter(v['key'] for v in viol)),
      'distribution': dict(dist), 'samples': samples, 'wall_s': time.time() - t0,
  }
  with open(out_path, 'w') as f:
    json.dump(out, f, indent=1, default=str)
  print(f'oracle static: {dist["returned"]} models, violations '
        f'{dict(collections.Counter(v["key"] for v in viol))}, {time.time() - t0:.0f}s')


if __name__ == '__main__':
  main()
