"""Shared harness utilities (stdlib only; usable from any python3).

* J encoding (nested lists of ints) and its flat form, mirroring Base/Prelude.v
* Coq literal writers
* running generated case files through coqc in parallel and parsing results
"""
import concurrent.futures
import os
import re
import shutil
import subprocess
import tempfile
import time

VERIF = os.path.dirname(os.path.dirname(os.path.abspath(__file__)))
COQDIR = os.path.join(VERIF, 'coq')


def flat(j):
  """Mirror of Prelude.flat: JZ z -> [0,z]; JL l -> [1,len,...]."""
  out = []
  stack = [j]
  # iterative pre-order
  def rec(x):
    if isinstance(x, bool):
      out.extend((0, 1 if x else 0))
    elif isinstance(x, int):
      out.extend((0, x))
    else:
      out.extend((1, len(x)))
      for y in x:
        rec(y)
  rec(j)
  return out


def unflat(tokens):
  """Inverse of flat (for diagnostics)."""
  pos = 0

  def rec():
    nonlocal pos
    tag = tokens[pos]
    if tag == 0:
      v = tokens[pos + 1]
      pos += 2
      return v
    n = tokens[pos + 1]
    pos += 2
    return [rec() for _ in range(n)]
  r = rec()
  return r


def jopt(x, f=lambda v: v):
  return [] if x is None else [f(x)]


def zlit(z):
  z = int(z)
  return f'({z})' if z < 0 else str(z)


def coq_list(items):
  return '[' + '; '.join(items) + ']'


def coq_bool(b):
  return 'true' if b else 'false'


def coq_opt(x, f):
  return 'None' if x is None else f'(Some {f(x)})'


_INT = re.compile(r'-?\d+')


def parse_list_list_z(text):
  """Parse Coq's printing of a `list (list Z)` value: returns list of lists."""
  i = text.index('=')
  j = text.rindex(': list')
  body = text[i + 1:j]
  out = []
  depth = 0
  cur = None
  for m in re.finditer(r'\[|\]|-?\d+', body):
    tok = m.group(0)
    if tok == '[':
      depth += 1
      if depth == 2:
        cur = []
    elif tok == ']':
      if depth == 2:
        out.append(cur)
        cur = None
      depth -= 1
    else:
      cur.append(int(tok))
  return out


class CoqRunError(Exception):
  pass


def run_case_files(files, jobs=8, timeout=600):
  """files: list of (name, text).  Each text must end with exactly one
  `Eval vm_compute in (...)` of type list (list Z).  Returns {name: lists}."""
  scratch = tempfile.mkdtemp(prefix='vf_cases_')
  try:
    def one(item):
      name, text = item
      path = os.path.join(scratch, name + '.v')
      with open(path, 'w') as f:
        f.write(text)
      t0 = time.time()
      p = subprocess.run(
          ['coqc', '-Q', COQDIR, 'VF', '-w', '-all', path],
          capture_output=True, text=True, timeout=timeout, cwd=scratch)
      if p.returncode != 0:
        raise CoqRunError(f'{name}: coqc failed:\n{p.stdout[-2000:]}\n'
                          f'{p.stderr[-4000:]}')
      return name, parse_list_list_z(p.stdout), time.time() - t0
    res = {}
    with concurrent.futures.ThreadPoolExecutor(max_workers=jobs) as ex:
      for name, lists, dt in ex.map(one, files):
        res[name] = lists
    return res
  finally:
    shutil.rmtree(scratch, ignore_errors=True)


def shard(items, n):
  return [items[i:i + n] for i in range(0, len(items), n)]
