"""Recipe and statistics generators for graph-level checks."""
import collections
import glob
import json
import os
import re

import numpy as np

from ai_edge_quantizer import qtyping
from ai_edge_quantizer import recipe_manager
from ai_edge_quantizer.utils import tfl_flatbuffer_utils as tfu
import oracle_graph as og

T = qtyping.TensorQuantizationConfig
O = qtyping.OpQuantizationConfig
G = qtyping.QuantGranularity
P = qtyping.ComputePrecision
MM = 'min_max_uniform_quantize'
FC_ALG = 'float_casting'
NQ = 'no_quantize'
RECIPE_DIR = os.path.join(os.path.dirname(recipe_manager.__file__), 'recipes')


def shipped():
  out = {}
  for f in sorted(glob.glob(os.path.join(RECIPE_DIR, '*.json'))):
    with open(f) as fh:
      out[os.path.basename(f)[:-5]] = json.load(fh)
  return out


DEFAULT_SHIPPED = ['default_a8w8_recipe', 'default_a16w8_recipe',
                   'default_af32w8float_recipe', 'default_af32w4float_recipe',
                   'dynamic_wi8_afp32_recipe']


def cfg_dict(c):
  return c.to_dict()


def named_configs():
  ch, te = G.CHANNELWISE, G.TENSORWISE
  return {
      'a8w8': (MM, O(T(8, False), T(8, True, ch), P.INTEGER)),
      'a8sw8': (MM, O(T(8, True), T(8, True, te), P.INTEGER)),
      'a16w8': (MM, O(T(16, True), T(8, True, ch), P.INTEGER)),
      'a8w4': (MM, O(T(8, False), T(4, True, ch), P.INTEGER)),
      'a16w4': (MM, O(T(16, True), T(4, True, te), P.INTEGER)),
      'drq8': (MM, O(None, T(8, True, ch), P.INTEGER)),
      'drq8t': (MM, O(None, T(8, True, te), P.INTEGER)),
      'drq4': (MM, O(None, T(4, True, ch), P.INTEGER)),
      'wo8': (MM, O(None, T(8, False, ch), P.FLOAT, True)),
      'wo8s': (MM, O(None, T(8, True, te), P.FLOAT, True)),
      'wo4': (MM, O(None, T(4, False, ch), P.FLOAT, True)),
      'wo8t': (MM, O(None, T(8, False, te), P.FLOAT, True)),     # asymmetric, per tensor (directed streams only)
      'wo4t': (MM, O(None, T(4, False, te), P.FLOAT, True)),
      # per-channel ACTIVATIONS: no kernel takes them, no op supports the config (directed streams only)
      'a8cw8': (MM, O(T(8, False, ch), T(8, True, ch), P.INTEGER)),
      'fp16': (FC_ALG, O(None, T(16, dtype=qtyping.TensorDataType.FLOAT),
                         P.FLOAT, True)),
      'nq': (NQ, None),
  }


STATIC = ['a8w8', 'a8sw8', 'a16w8', 'a8w4', 'a16w4']
FLOATC = ['drq8', 'drq8t', 'drq4', 'wo8', 'wo8s', 'wo4', 'fp16']


def edit_model(entered):
  """The recipe a sequence of ACCEPTED rule entries denotes, per the documented
  edit model and independently of RecipeManager: scopes (regexes) in order of
  first insertion; a '*' entry replaces the scope's rules; an entry for an
  operation already listed under the regex replaces it in place; otherwise
  it is appended.  entered: [{'regex','operation','algorithm_key','op_config'}]."""
  scopes = {}
  for r in entered:
    rg, opn = r['regex'], r['operation']
    if opn == '*' or rg not in scopes:
      scopes[rg] = [r]
    else:
      idx = [i for i, q in enumerate(scopes[rg]) if q['operation'] == opn]
      if idx:
        scopes[rg][idx[0]] = r
      else:
        scopes[rg].append(r)
  return [r for rg in scopes for r in scopes[rg]]


def entered_rules(accepted):
  """[(regex, operation, algorithm, config name)] -> rule dicts (as exported)"""
  ncfg = named_configs()
  return [{'regex': rg, 'operation': opn, 'algorithm_key': alg,
           'op_config': (ncfg[cn][1].to_dict() if ncfg[cn][1] is not None else None)}
          for (rg, opn, alg, cn) in accepted]


def needs_calibration(recipe_list):
  """Independent of RecipeManager.need_calibration: a recipe needs calibration
  iff some rule (not no_quantize) computes in INTEGER with an activation config."""
  for r in recipe_list:
    if str(r.get('algorithm_key')) == NQ:
      continue
    c = r.get('op_config') or {}
    if str(c.get('compute_precision')) == 'INTEGER' and c.get('activation_tensor_config') is not None:
      return True
  return False


def model_scopes(model_bytes):
  """[(op key or None, scope string with ';')] for every op, plus op names."""
  m = og.read(model_bytes)
  out = []
  for g in m.subgraphs:
    for o in g.operators:
      code = m.operatorCodes[o.opcodeIndex].builtinCode
      key = tfu.TFL_OP_CODE_TO_NAME.get(code)
      scope = ''.join(og.tname(g.tensors[x]) + ';' for x in o.outputs if x != -1)
      out.append((key.value if key else None, scope))
  return out


def fanout_rules(rng, model_bytes):
  """Directed: every supported op that reads the most-read runtime tensor of
  subgraph 0 gets its own exactly-scoped rule with a DIFFERENT static config, so
  that one tensor needs several quantized representations at once."""
  m = og.read(model_bytes)
  g = m.subgraphs[0]
  readers = collections.defaultdict(list)
  for oi, o in enumerate(g.operators):
    for x in set(int(i) for i in o.inputs if i != -1):
      if not og.is_const(m, g.tensors[x]):
        readers[x].append(oi)
  if not readers:
    return []
  t = max(readers, key=lambda x: len(readers[x]))
  ncfg = named_configs()
  cfgs = ['a8w8', 'a8sw8', 'a16w8']
  rng.shuffle(cfgs)
  rules = []
  for j, oi in enumerate(readers[t]):
    o = g.operators[oi]
    key = tfu.TFL_OP_CODE_TO_NAME.get(m.operatorCodes[o.opcodeIndex].builtinCode)
    if key is None:
      continue
    scope = ''.join(og.tname(g.tensors[x]) + ';' for x in o.outputs if x != -1)
    cname = cfgs[j % len(cfgs)]
    rules.append(('^' + re.escape(scope) + '$', key.value, ncfg[cname][0], cname))
  return rules


def gen_rules(rng, model_bytes, family=None):
  """Random rule list as (regex, operation, algorithm, config name)."""
  scopes = model_scopes(model_bytes)
  present = sorted(set(k for k, _ in scopes if k))
  ncfg = named_configs()
  if family is None:
    family = rng.choice(['static', 'float', 'mixed'])
  pool = {'static': STATIC, 'float': FLOATC,
          'mixed': STATIC + FLOATC}[family]
  rules = []
  n = rng.choice([1, 1, 2, 3, 4])
  for i in range(n):
    r = rng.random()
    if r < 0.45 or not scopes:
      regex = '.*'
    elif r < 0.75:
      s = rng.choice(scopes)[1]
      regex = re.escape(s[:max(1, rng.randrange(len(s) + 1))])
    elif r < 0.9:
      regex = '^' + re.escape(rng.choice(scopes)[1]) + '$'
    else:
      regex = re.escape(rng.choice(scopes)[1].rstrip(';'))
    opsel = rng.choice(['*'] * 3 + present + ['INPUT', 'OUTPUT'])
    cname = rng.choice(pool + (['nq'] if i else []))
    rules.append((regex, opsel, ncfg[cname][0], cname))
  if len(rules) >= 2 and rng.random() < 0.2:
    # RE-SPECIFY an earlier entry (same regex and operation, another config): the
    # earlier rule is replaced in place, every later rule of the scope must survive
    rg0, op0, _, _ = rng.choice(rules[:-1])
    cname = rng.choice(pool)
    rules.append((rg0, op0, ncfg[cname][0], cname))
  return rules, family


def apply_rules(qt, rules):
  """Apply rule tuples to a Quantizer; refused rules (ValueError) are
  skipped and reported."""
  ncfg = named_configs()
  accepted = []
  for regex, opsel, alg, cname in rules:
    try:
      qt.update_quantization_recipe(regex, opsel, ncfg[cname][1], alg)
      accepted.append((regex, opsel, alg, cname))
    except ValueError:
      pass
  return accepted


def synthetic_stats(model_bytes, rng):
  """A calibration-result dict covering every float activation tensor."""
  m = og.read(model_bytes)
  stats = {}
  for g in m.subgraphs:
    for t in g.tensors:
      if t.type != 0 or og.is_const(m, t):
        continue
      rank = len(t.shape)
      kind = rng.choice(['sym', 'pos', 'neg', 'wide', 'tiny', 'normal',
                         'normal'])
      a, b = sorted([rng.gauss(0, 2), rng.gauss(0, 2)])
      if kind == 'pos':
        a, b = abs(a) + 0.1, abs(a) + abs(b) + 0.2
      elif kind == 'neg':
        a, b = -abs(a) - abs(b) - 0.2, -abs(a) - 0.1
      elif kind == 'wide':
        a, b = a * 1e3, b * 1e3
      elif kind == 'tiny':
        a, b = a * 1e-7, b * 1e-7
      elif kind == 'sym':
        b = abs(a) + 0.5
        a = -b
      shape = [1] * rank
      stats[og.tname(t)] = {
          'min': np.array(a, dtype=np.float32).reshape(shape),
          'max': np.array(b, dtype=np.float32).reshape(shape)}
  return stats


def own_stats(model_bytes, inputs):
  """True per-tensor min/max of one forward pass per signature, collected by
  the check's own interpreter instance (every subgraph, every float
  non-constant tensor).  inputs: {signature key: [ {arg: array} ]}; several
  samples are folded with the library's documented moving average
  (0.95 old + 0.05 new, first sample initialises) in float32."""
  from ai_edge_litert import interpreter as tfl
  m = og.read(model_bytes)
  it = tfl.Interpreter(
      model_content=bytes(model_bytes),
      experimental_op_resolver_type=tfl.OpResolverType.BUILTIN_WITHOUT_DEFAULT_DELEGATES,
      experimental_preserve_all_tensors=True)
  it.allocate_tensors()
  stats = {}
  for sd in m.signatureDefs:
    key = sd.signatureKey.decode()
    sgi = int(sd.subgraphIndex)
    g = m.subgraphs[sgi]
    runner = it.get_signature_runner(key)
    for sample in inputs[key]:
      runner(**sample)
      for ti, t in enumerate(g.tensors):
        if t.type != 0 or og.is_const(m, t):
          continue
        try:
          v = it.get_tensor(ti, sgi)
        except ValueError:
          continue
        name = og.tname(t)
        mn = np.min(v, axis=None, keepdims=True)
        mx = np.max(v, axis=None, keepdims=True)
        if name not in stats:
          stats[name] = {'min': mn, 'max': mx}
        else:
          stats[name] = {'min': 0.95 * stats[name]['min'] + (1.0 - 0.95) * mn,
                         'max': 0.95 * stats[name]['max'] + (1.0 - 0.95) * mx}
      try:
        it.reset_all_variables()   # every sample starts from the initial state (as the library does)
      except RuntimeError:
        pass
  return stats
