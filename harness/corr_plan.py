"""Correspondence P: params_generator.ParamsGenerator (+ materializers) vs
Model/Plan.v.  The model returns provenance TERMS; the harness evaluates each
term with the library's own numeric functions and requires equality (==) with
the parameters the implementation attached (this is also C04's provenance
oracle), compares transformations / op ids / errors exactly, and compares the
final contents of the caller's statistics dict with the model's store (C14).
"""
import collections
import copy
import json
import os
import random
import re
import sys
import time

sys.path.insert(0, os.path.dirname(os.path.abspath(__file__)))
import vlib
from absl import logging as _l
_l.set_verbosity(_l.ERROR)

import numpy as np
from ai_edge_quantizer import params_generator
from ai_edge_quantizer import qtyping
from ai_edge_quantizer import quantizer
from ai_edge_quantizer.algorithms.uniform_quantize import uniform_quantize_tensor as uqt
from ai_edge_quantizer.utils import tfl_flatbuffer_utils as tfu
import gen_graph as gg
import gen_recipe as gr
import oracle_graph as og
import corr_recipe as cr
import corr_graph as cg

TRANS = list(qtyping.QuantTransformation)
FIXED = {0: {8: (1.0 / 256, -128, False), 16: (1.0 / 32768, 0, True)},
         1: {8: (1.0 / 128, 0, False), 16: (1.0 / 32768, 0, True)}}


def c_state(rm, rid, oid):
  items = []
  for rg, rules in rm._scope_configs.items():  # pylint: disable=protected-access
    rs = []
    for r in rules:
      rs.append(f'(Build_rule {rid(r.regex)} {cr.c_op(r.operation)} '
                f'{cr.c_akey(r.algorithm_key, oid)} {cr.c_ocfg(r.op_config)})')
    items.append(f'({rid(rg)}, {vlib.coq_list(rs)})')
  return vlib.coq_list(items)


def op_scopes(m):
  """Scope strings exactly as the params generator builds them, per subgraph,
  real ops followed by the virtual INPUT and OUTPUT ops."""
  out = []
  for g in m.subgraphs:
    sc = []
    for o in g.operators:
      sc.append(''.join(og.tname(g.tensors[x]) + ';' for x in o.outputs if x != -1))
    sc.append(''.join(og.tname(g.tensors[x]) + ';' for x in g.inputs if x != -1))
    sc.append('')
    out.append(sc)
  return out


class TermEval:
  """Evaluates provenance terms with the library's numeric functions."""

  def __init__(self, ctx, m, stats0):
    self.ctx, self.m, self.stats0 = ctx, m, stats0
    self.by_name = {}
    self.by_cid = {}
    for gi, g in enumerate(m.subgraphs):
      for t in g.tensors:
        self.by_name[tuple(self._key(og.tname(t)))] = (gi, t)
        cid = (int(t.buffer), ctx.shapes(tuple(int(x) for x in t.shape)))
        self.by_cid.setdefault(cid, t)

  def _key(self, s):
    root, sfx = self.ctx.name(s)
    return [root] + list(sfx)

  def tensor(self, jn):
    return self.by_name[tuple([jn[0]] + list(jn[1]))]

  def data(self, jc):
    t = self.by_cid[(jc[0], jc[1])]
    return tfu.get_tensor_data(t, self.m.buffers)

  def qdim(self, jq, jn_data, gi, opid):
    return jq[0] if jq else None

  def minmax(self, jv, gi, opid):
    if jv[0] == 0:
      _, t = self.tensor(jv[1])
      return self.stats0[og.tname(t)]
    if jv[0] == 1:
      d = self.data(jv[1])
      qd = self.qdim(jv[2], jv[1], gi, opid)
      dims = None if qd is None else tuple(i for i in range(d.ndim) if i != qd)
      return {'min': np.min(d, axis=dims, keepdims=True),
              'max': np.max(d, axis=dims, keepdims=True)}
    kind, bits, sym = jv[1], jv[2], bool(jv[3])
    scale, zp, _ = FIXED[kind][bits]
    qmin, qmax = -(2 ** (bits - 1)), 2 ** (bits - 1) - 1
    fmin = (np.array(float(qmin)) - np.array(zp)) * np.array(scale)
    fmax = (np.array(float(qmax)) - np.array(zp)) * np.array(scale)
    if sym:
      fmin = -fmax
    return {'min': fmin, 'max': fmax}

  def param(self, jp, gi, opid):
    tag = jp[0]
    if tag == 0:
      _, jv, bits, sym, jq, jd = jp
      mm = self.minmax(jv, gi, opid)
      zp, scale = uqt.tensor_zp_scale_from_min_max(mm['min'], mm['max'], bits, bool(sym))
      content = self.data(jd[0]) if jd else None
      qd = self.qdim(jq, jd[0] if jd else None, gi, opid) if jq else None
      p = qtyping.UniformQuantParams(scale=scale, zero_point=zp, num_bits=bits,
                                     symmetric=bool(sym), quantized_dimension=qd)
      if content is None:
        return p
      q = uqt.uniform_quantize(content, p)
      return qtyping.UniformQuantParams(scale=scale, zero_point=zp, num_bits=bits,
                                        symmetric=bool(sym), quantized_dimension=qd,
                                        quantized_data=q)
    if tag == 1:
      scale, zp, sym = FIXED[jp[1]][jp[2]]
      return qtyping.UniformQuantParams(num_bits=jp[2], quantized_dimension=None,
                                        scale=np.array(scale), zero_point=np.array(zp),
                                        symmetric=sym)
    if tag == 2:
      return uqt.symmetric_quantize_bias_tensor(
          self.data(jp[3]), self.param(jp[1], gi, opid), self.param(jp[2], gi, opid))
    return qtyping.NonLinearQuantParams(
        num_bits=16, quantized_data=self.data(jp[1]).astype(np.float16))


def qsv_equal(a, b):
  try:
    return (set(a.keys()) == set(b.keys()) and
            all(np.array_equal(np.asarray(a[k]), np.asarray(b[k])) for k in a))
  except Exception:  # pylint: disable=broad-except
    return False


PRELUDE = '''From VF Require Import Base.Prelude Gen.Enums Gen.Configs Gen.Scopes Model.Recipe Model.Check Model.Graph Model.Plan Model.Pipeline.
Open Scope Z_scope.
Definition mk_matches (t : list (Z * Z)) (r s : Z) : bool :=
  existsb (fun p => Z.eqb (fst p) r && Z.eqb (snd p) s) t.
Definition J_store (s : list (name_t * vterm)) : J :=
  Jlist (fun kv => JL [J_name (fst kv); J_vterm (snd kv)]) s.
Definition mk_scope_id (t : list ((Z * list stok) * Z)) (gi : Z) (toks : list stok) : Z :=
  match find (fun e => Z.eqb (fst (fst e)) gi && list_eqb stok_eqb (snd (fst e)) toks) t with
  | Some e => snd e | None => -1 end.
Definition case_t : Type :=
  model * state * list (Z * Z) * list ((Z * list stok) * Z) * list (list bool) * option (list name_t).
Definition run_case (c : case_t) : list Z :=
  let '(m, rules, mt, sct, scopes, stats) := c in
  flat (Jres (fun r => JL [Jlist J_tplan (fst r); J_store (snd r)])
             (plan_checked (mk_matches mt) rules (mk_scope_id sct) m scopes stats)).
(* interface E2: the WHOLE pipeline as one model function; parameter-equality
   classes are VALUE classes supplied as a table aligned with terms_of *)
Definition run_case2 (ct : case_t * list Z) : list Z :=
  let '(m, rules, mt, sct, scopes, stats) := fst ct in
  flat (Jres (fun r => J_model (fst r))
             (pipeline_cls (table_class (snd ct)) (mk_matches mt) rules (mk_scope_id sct) m scopes stats)).
'''


def main():
  out_path = sys.argv[1]
  tier = os.environ.get('VERIF_TIER', 'quick')
  seed = int(os.environ.get('VERIF_SEED', '0'))
  rng = random.Random(seed * 104729 + 3)
  t0 = time.time()
  n_models = 2500 if tier == 'thorough' else 180
  cases = []
  viol = []
  dist = collections.Counter()
  nontrivial = set()
  import oracle_c19 as o19
  for mb, qt, stats, desc, info in cg.gen_cases(rng, n_models):
    if info.get('n_subgraphs', 1) > 1 and rng.random() < 0.12 and not info.get('unmodelled'):
      # the same model with a tensor name repeated in another subgraph: outside the
      # input contract, ParamsGenerator must refuse it (the model's plan_checked does)
      dup = o19.dup_names(mb, rng)
      if dup is not None:
        try:
          q2 = quantizer.Quantizer(bytearray(dup))
          q2.load_quantization_recipe(copy.deepcopy(qt.get_quantization_recipe()))
          mb, qt = dup, q2
          dist['repeated_name_across_subgraphs'] += 1
        except Exception:  # pylint: disable=broad-except
          pass
    m = og.read(mb)
    ctx = cg.Ctx()
    rid, sid, oid = cr.Intern(), cr.Intern(), cr.Intern()
    rm = qt._recipe_manager  # pylint: disable=protected-access
    if rng.random() < 0.15 and stats:
      # drop one statistics entry: missing-statistics path
      k = rng.choice(sorted(stats))
      stats = {a: b for a, b in stats.items() if a != k}
      dist['dropped_stat'] += 1
    stats0 = copy.deepcopy(stats)
    caller = copy.deepcopy(stats)
    dist['cases'] += 1
    try:
      pg = params_generator.ParamsGenerator(bytearray(mb))
      params = pg.generate_quantization_parameters(rm, caller)
      impl = ('ok', params)
    except Exception as e:  # pylint: disable=broad-except
      impl = ('err', e)
      dist['impl_raises:' + cg.classify_raise(e)] += 1
    try:
      qout = ('ok', qt.quantize(copy.deepcopy(stats0)).quantized_model)
    except Exception as e:  # pylint: disable=broad-except
      qout = ('err', e)
    scopes = op_scopes(m)
    adj = []
    for g in m.subgraphs:
      a = []
      for o in g.operators:
        code = m.operatorCodes[o.opcodeIndex].builtinCode
        a.append(bool(code == 126 and o.builtinOptions is not None and o.builtinOptions.adjY))
      adj.append(a + [False, False])
    # scope table: (subgraph, token list) -> interned scope string, for both
    # the ops' result lists and the virtual INPUT/OUTPUT ops
    tok_rows = []
    for gi, g in enumerate(m.subgraphs):
      outs_lists = [list(o.outputs) for o in g.operators] + [list(g.inputs), []]
      for outs, sc in zip(outs_lists, scopes[gi]):
        toks = []
        for x in outs:
          if int(x) != -1:
            toks += [f'TName {vlib.zlit(int(x))}', 'TLit 59']
        tok_rows.append(f'(({gi}, {vlib.coq_list(toks)}), {sid(sc)})')
    adj = [a[:-2] for a in adj]
    for rg in rm._scope_configs:  # pylint: disable=protected-access
      rid(rg)
    pairs = [f'({r}, {s})' for rg, r in rid.d.items() for sc, s in sid.d.items()
             if re.search(rg, sc)]
    if stats is None:
      st_lit = 'None'
    else:
      names = []
      for k in stats:
        root, sfx = ctx.name(k)
        names.append(f'({root}, {cg.c_zlist(sfx)})')
      st_lit = f'(Some {vlib.coq_list(names)})'
    model_lit = cg.c_model(ctx, m)
    lit = (f'({model_lit}, {c_state(rm, rid, oid)}, {vlib.coq_list(pairs)}, '
           f'{vlib.coq_list(tok_rows)}, '
           f'{vlib.coq_list([vlib.coq_list([vlib.coq_bool(b) for b in x]) for x in adj])}, {st_lit})')
    if os.environ.get('VERIF_DUMP_CASE') == str(len(cases)):
      with open(os.environ.get('VERIF_DUMP_FILE', '/tmp/vf_case.json'), 'w') as _f:
        json.dump({'model_hex': mb.hex(), 'recipe': desc, 'info': {k_: v_ for k_, v_ in info.items() if isinstance(v_, (int, str, list, bool))}}, _f)
    cases.append((lit, ctx, m, stats0, caller, impl, desc, qout))
  shards = vlib.shard(list(range(len(cases))), 40)
  files = [(f'plan_{si}', PRELUDE +
            'Definition cases : list case_t := [\n'
            + ';\n'.join(cases[i][0] for i in idxs) +
            '\n].\nEval vm_compute in (map run_case cases).\n')
           for si, idxs in enumerate(shards)]
  results = vlib.run_case_files(files, jobs=int(os.environ.get('VERIF_JOBS', '12')),
                                timeout=1200)
  mism = []
  samples = []
  terms_checked = 0
  e2_checked = 0
  jr_by_case = {}
  for si, idxs in enumerate(shards):
    got = results[f'plan_{si}']
    for k, i in enumerate(idxs):
      lit, ctx, m, stats0, caller, impl, desc, qout = cases[i]
      jr = vlib.unflat(got[k])
      jr_by_case[i] = jr
      if impl[0] == 'err':
        code = cr.exn_code(impl[1])
        if jr[0] != 1 or jr[1] != code:
          mism.append({'case': i, 'recipe': desc, 'what': 'error outcome',
                       'impl': f'{type(impl[1]).__name__}: {str(impl[1])[:120]}',
                       'model': jr if jr[0] else 'returns'})
        continue
      if jr[0] != 0:
        mism.append({'case': i, 'recipe': desc, 'what': 'error outcome',
                     'impl': 'returns', 'model': jr})
        continue
      jplans, jstore = jr[1]
      params = impl[1]
      ev = TermEval(ctx, m, stats0 or {})
      names = list(params.keys())
      if len(jplans) != len(names):
        mism.append({'case': i, 'recipe': desc, 'what': 'tensor count',
                     'impl': len(names), 'model': len(jplans)})
        continue
      bad = None
      nontriv = False
      for jp, nm in zip(jplans, names):
        p = params[nm]
        root, sfx = ctx.name(nm)
        if jp[0] != [root, sfx]:
          bad = f'tensor order/name: model {jp[0]} impl {nm}'
          break
        gi, _ = ev.tensor(jp[0])

        def cmp_entry(je, e, what):
          nonlocal terms_checked
          if (je is None) != (e is None):
            return f'{nm} {what}: presence differs'
          if e is None:
            return None
          if je[0] != e.subgraph_op_id or je[1] != [TRANS.index(t) for t in e.transformations]:
            return (f'{nm} {what}: model (op {je[0]}, {je[1]}) impl (op '
                    f'{e.subgraph_op_id}, {[t.name for t in e.transformations]})')
          if bool(je[2]) != (e.parameters is not None):
            return f'{nm} {what}: parameter presence differs'
          if je[2]:
            terms_checked += 1
            try:
              ref = ev.param(je[2][0], gi, e.subgraph_op_id)
            except Exception as ex:  # pylint: disable=broad-except
              return f'{nm} {what}: term {je[2][0]} not evaluable: {type(ex).__name__} {ex}'
            if not ref == e.parameters:
              return (f'{nm} {what}: parameters differ from the reference term '
                      f'{je[2][0]}')
          return None
        r = cmp_entry(jp[1][0] if jp[1] else None, p.producer, 'producer')
        if r:
          bad = r
          break
        jc = jp[2][0] if jp[2] else None
        if (jc is None) != (p.consumers is None) or (
            jc is not None and len(jc) != len(p.consumers)):
          bad = f'{nm}: consumer list shape differs'
          break
        for je, e in zip(jc or [], p.consumers or []):
          r = cmp_entry(je, e, 'consumer')
          if r:
            bad = r
            break
          if e.transformations != [qtyping.QuantTransformation.NO_QUANTIZE]:
            nontriv = True
        if bad:
          break
      if bad:
        mism.append({'case': i, 'recipe': desc, 'what': bad})
        continue
      # C14: the caller's statistics dict is not modified (the model's store is
      # a private copy since the fix of F10)
      if stats0 is not None:
        if list(caller) != list(stats0) or not all(
            qsv_equal(caller[k], stats0[k]) for k in stats0):
          viol.append({'key': 'C14:stats-mutated', 'what':
                       'generate_quantization_parameters modified the caller\'s '
                       'calibration result', 'input': {'recipe': desc}})
      if nontriv:
        nontrivial.add(lit)
      if len(samples) < 3:
        samples.append({'recipe': desc, 'first_tensors': jplans[:2]})
  # ---------------- round 2: interface E2 ----------------
  def terms_of(jplans):
    ts = []
    for jp in jplans:
      if jp[1] and jp[1][0][2]:
        ts.append(jp[1][0][2][0])
      for je in (jp[2][0] if jp[2] else []):
        if je[2]:
          ts.append(je[2][0])
    return ts
  cases2 = []
  for i, c in enumerate(cases):
    lit, ctx, m, stats0, caller, impl, desc, qout = c
    jr = jr_by_case.get(i)
    table, reps = [], []
    if jr is None or jr[0] != 0:
      continue        # plan generation itself raised: outcome already compared by interface P
    if True:
      ev2 = TermEval(ctx, m, stats0 or {})
      try:
        for t in terms_of(jr[1][0]):
          p_ = ev2.param(t, 0, 0)
          for ci, q_ in enumerate(reps):
            if q_ == p_:
              table.append(ci)
              break
          else:
            reps.append(p_)
            table.append(len(reps) - 1)
      except Exception:  # pylint: disable=broad-except
        table, reps = None, None
    if table is None:
      continue
    cases2.append((i, f'({lit}, {cg.c_zlist(table)})', reps))
  shards2 = vlib.shard(list(range(len(cases2))), 40)
  files2 = [(f'pipe_{si}', PRELUDE + 'Definition cases : list (case_t * list Z) := [\n'
             + ';\n'.join(cases2[j][1] for j in idxs) +
             '\n].\nEval vm_compute in (map run_case2 cases).\n')
            for si, idxs in enumerate(shards2)]
  results2 = vlib.run_case_files(files2, jobs=int(os.environ.get('VERIF_JOBS', '12')), timeout=1200)
  for si, idxs in enumerate(shards2):
    got = results2[f'pipe_{si}']
    for k, j in enumerate(idxs):
      i, _, reps = cases2[j]
      lit, ctx, m, stats0, caller, impl, desc, qout = cases[i]
      jr2 = vlib.unflat(got[k])
      e2_checked += 1
      if qout[0] == 'err':
        if jr2[0] != 1:
          mism.append({'interface': 'E2', 'case': i, 'recipe': desc, 'what': 'quantize() raises '
                       f'{type(qout[1]).__name__}: {str(qout[1])[:100]}, the pipeline model returns'})
        continue
      if jr2[0] != 0:
        mism.append({'interface': 'E2', 'case': i, 'recipe': desc, 'what':
                     f'quantize() returns, the pipeline model raises {jr2}'})
        continue
      saved = ctx.params
      ctx.params = reps
      try:
        d = cg.compare_model(ctx, jr2[1], m, og.read(qout[1]))
      except Exception as ex:  # pylint: disable=broad-except
        d = [f'comparison failed: {type(ex).__name__}: {ex}']
      ctx.params = saved
      if d:
        mism.append({'interface': 'E2', 'case': i, 'recipe': desc,
                     'what': 'pipeline model vs quantize() output', 'diffs': d[:4]})
  out = {
      'interface': 'P+E2', 'evaluations': len(cases), 'pipeline_outputs_compared': e2_checked,
      'distinct_nontrivial': len(nontrivial), 'terms_evaluated': terms_checked,
      'n_mismatches': len(mism), 'mismatches': mism[:10],
      'oracle_violations': viol, 'distribution': dict(dist), 'samples': samples,
      'wall_s': time.time() - t0,
  }
  with open(out_path, 'w') as f:
    json.dump(out, f, indent=1, default=str)
  print(f'corr P: {len(cases)} cases, {len(mism)} mismatches, {terms_checked} terms, '
        f'{time.time() - t0:.0f}s')


if __name__ == '__main__':
  main()
