"""Runtime validation for C07: a static-range (full integer) model, calibrated
on an input x through the public API, approximates the float model on x.

For every generated model x static recipe: Quantizer.calibrate(x) (one sample
per signature), quantize(), both models run on x in the interpreter (forked
child); for every model output: finite; not constant / saturated when the
float output is not; |dequantized - float| <= K_STEPS output steps +
FRACTION * (largest float activation magnitude of that signature's run).

argv: out.json"""
import collections
import copy
import json
import os
import random
import sys
import time

sys.path.insert(0, os.path.dirname(os.path.abspath(__file__)))
from absl import logging as _l
_l.set_verbosity(_l.ERROR)

import numpy as np
from ai_edge_litert import interpreter as tfl
from ai_edge_quantizer import quantizer
import gen_graph as gg
import gen_recipe as gr
import oracle_graph as og
import corr_graph as cg
import oracle_static as os_

K_STEPS = 6.0
FRACTION = 0.08
# ops whose float function amplifies input error without bound near a
# singularity (1/sqrt(x) at small x): excluded from the numeric clause
AMPLIFYING = {76}    # RSQRT


def float_run(mb, feed):
  it = tfl.Interpreter(model_content=bytes(mb),
                       experimental_op_resolver_type=tfl.OpResolverType.BUILTIN_WITHOUT_DEFAULT_DELEGATES,
                       experimental_preserve_all_tensors=True)
  it.allocate_tensors()
  res = {}
  for key, f in feed.items():
    r = it.get_signature_runner(key)
    outs = r(**f)
    sg = r._subgraph_index  # pylint: disable=protected-access
    mag = 0.0
    for det in it.get_tensor_details(sg):
      if det['name'] and det['dtype'] == np.float32:
        try:
          v = it.get_tensor(det['index'], sg)
          if v.size and np.all(np.isfinite(v)):
            mag = max(mag, float(np.max(np.abs(v))))
        except ValueError:
          pass
    res[key] = ({k: np.array(v) for k, v in outs.items()}, mag)
  return res


def all_tensors(model_bytes, feed):
  """{sig: {tensor name: (dequantized float64 array, step or 0)}} (in process; call only after a forked
  run of the same model succeeded)"""
  it = tfl.Interpreter(model_content=bytes(model_bytes),
                       experimental_op_resolver_type=tfl.OpResolverType.BUILTIN_WITHOUT_DEFAULT_DELEGATES,
                       experimental_preserve_all_tensors=True)
  it.allocate_tensors()
  res = {}
  for key, f in feed.items():
    r = it.get_signature_runner(key)
    f2 = {}
    for name, det in r.get_input_details().items():
      arr = np.asarray(f[name])
      if arr.dtype != det['dtype']:
        sc, zp = det['quantization']
        info = np.iinfo(det['dtype'])
        arr = np.clip(np.rint(arr / sc + zp), info.min, info.max).astype(det['dtype'])
      f2[name] = arr
    r(**f2)
    sg = r._subgraph_index  # pylint: disable=protected-access
    d = {}
    for det in it.get_tensor_details(sg):
      if not det['name']:
        continue
      try:
        v = it.get_tensor(det['index'], sg)
      except ValueError:
        continue
      qp = det['quantization_parameters']
      v64 = v.astype(np.float64)
      step = 0.0
      if len(qp['scales']):
        sc = np.asarray(qp['scales'], dtype=np.float64)
        zp = np.asarray(qp['zero_points'], dtype=np.float64)
        step = float(np.max(sc))
        if len(sc) > 1:
          shape = [1] * v.ndim
          shape[qp['quantized_dimension']] = len(sc)
          sc, zp = sc.reshape(shape), zp.reshape(shape)
        v64 = (v64 - zp) * sc
      d[det['name']] = (v64, step)
    res[key] = d
  return res


def quant_run(qb, feed):
  """{sig: {out name: (dequantized float64, raw, scale, dtype)}} in a forked child (may abort)"""
  r = og.run_interpreter(qb, feed)
  return r


def out_steps(qb):
  """{sig: {output name: (scale or None, dtype)}}"""
  it = tfl.Interpreter(model_content=bytes(qb))
  res = {}
  for key in it.get_signature_list():
    r = it.get_signature_runner(key)
    res[key] = {n: ((d['quantization'][0] or None), d['dtype']) for n, d in r.get_output_details().items()}
  return res


def check_case(qt, mb, qb, feed, inp, dist, ratios, nontrivial, fraction=None):
  """C07 comparison of a calibrated static-range model with the float model on the calibration input"""
  viol = []
  m_in = og.read(mb)
  fl = float_run(mb, feed)
  rq = quant_run(qb, feed)
  if rq[0] != 'ok':
    msg = str(rq[1])
    if 'input1_shift == 0' in msg:
      dist['interp_int16_pot_scale(F15)'] += 1       # C01's known finding
    else:
      dist['interp_fail'] += 1
    return viol
  steps = out_steps(qb)
  res = os_.resolve_ops(qt, m_in)
  sig_sg = {sd.signatureKey.decode(): int(sd.subgraphIndex) for sd in m_in.signatureDefs}

  def producer_class(key, nm):
    """(op name, activation bits, weight granularity) of the op producing a signature output"""
    gi = sig_sg.get(key, 0)
    g = m_in.subgraphs[gi]
    for kk, o in enumerate(g.operators):
      for y in o.outputs:
        if og.tname(g.tensors[int(y)]) == nm:
          opk, mode, cfg = res[gi][0][kk]
          if cfg is None or cfg.activation_tensor_config is None:
            return f'{opk}:{mode}'
          gran = str(getattr(cfg.weight_tensor_config.granularity, 'value', cfg.weight_tensor_config.granularity))
          return f'{opk}:a{cfg.activation_tensor_config.num_bits}:{gran}'
    return 'graph-input'
  out_name = {}
  it0 = tfl.Interpreter(model_content=bytes(mb))
  for key in feed:
    out_name[key] = {n: d['name'] for n, d in it0.get_signature_runner(key).get_output_details().items()}
  codes = set(int(m_in.operatorCodes[o.opcodeIndex].builtinCode) for g in m_in.subgraphs for o in g.operators)
  amplifying = bool(codes & AMPLIFYING)
  try:
    tq_all = all_tensors(qb, feed)
    tf_all = all_tensors(mb, feed)
  except Exception as e:  # pylint: disable=broad-except
    dist['all_tensors_failed'] += 1
    return viol
  for key in feed:
    fouts, mag = fl[key]
    gi = sig_sg.get(key, 0)
    g = m_in.subgraphs[gi]
    # walk the ops in execution order: the FIRST op whose result is grossly
    # wrong is the cause; everything downstream is a consequence
    for kk, o in enumerate(g.operators):
      opk, mode, cfg = res[gi][0][kk]
      code_ = int(m_in.operatorCodes[o.opcodeIndex].builtinCode)
      # with 4-bit weights (fraction given) the relative noise of an activation is tens of
      # percent; a product of two such activations squares it: MUL ends the numeric clause too
      if code_ in AMPLIFYING or (fraction and code_ == 18):
        dist['numeric_clause_stopped(amplifying op)'] += 1
        break
      cause = None
      for y in o.outputs:
        nm = og.tname(g.tensors[int(y)])
        if g.tensors[int(y)].type != 0 or nm not in tq_all[key] or nm not in tf_all[key]:
          continue
        fv, _ = tf_all[key][nm]
        qv, step = tq_all[key][nm]
        if not fv.size or not np.all(np.isfinite(fv)):
          continue
        dist['tensors_compared'] += 1
        cls = ('unquantized' if cfg is None or cfg.activation_tensor_config is None else
               f'a{cfg.activation_tensor_config.num_bits}:' +
               str(getattr(cfg.weight_tensor_config.granularity, 'value', cfg.weight_tensor_config.granularity)))
        if not np.all(np.isfinite(qv)):
          cause = ('nonfinite', f'{nm}: non-finite values', cls)
          break
        spread = float(np.max(fv) - np.min(fv))
        lim = K_STEPS * step + (fraction or FRACTION) * max(mag, float(np.max(np.abs(fv)))) + 1e-6
        # a constant quantized tensor is an error only when the float tensor's
        # spread exceeds what the tolerance allows anyway (a ReLU output that is
        # 0 except for values far below the upstream quantization noise is not)
        if fv.size > 1 and step and spread > max(16 * step, 2 * lim) and float(np.max(qv) - np.min(qv)) == 0.0:
          cause = ('constant-output', f'{nm}: quantized tensor is constant ({float(qv.flat[0]):.4g}) while the '
                   f'float tensor spans {spread:.4g} ({spread / step:.0f} steps)', cls)
          break
        err = float(np.max(np.abs(qv - fv)))
        ratios.append(err / lim)
        if err > lim:
          cause = ('output-error', f'{nm}: max |dequantized - float| = {err:.4g} > {K_STEPS:g} steps '
                   f'({step:.3g}) + {(fraction or FRACTION):g} x activation magnitude ({mag:.4g})', cls)
          break
        nontrivial.add((len(mb), nm, round(err, 9)))
      if cause:
        viol.append({'key': f'C07:{cause[0]}:{opk}:{cause[2]}', 'what':
                     f'{key} op{kk} {opk}: {cause[1]}', 'input': inp})
        break
  return viol


def main():
  # degenerate constants (all-zero / 1e-6 / 1e4 weights: bias saturates int32, C05's business) are
  # outside C07's quantifier: well-conditioned constants only
  gg.CONST_KINDS = ['normal'] * 6 + ['pos', 'neg']
  out_path = sys.argv[1]
  tier = os.environ.get('VERIF_TIER', 'quick')
  seed = int(os.environ.get('VERIF_SEED', '0'))
  rng = random.Random(seed * 141650939 % (2 ** 31) + 47)
  t0 = time.time()
  n_models = 2000 if tier == 'thorough' else 200
  viol = []
  dist = collections.Counter()
  nontrivial = set()
  samples = []
  ratios = []
  ship = gr.shipped()
  ncfg = gr.named_configs()
  k = 0
  while k < n_models:
    deep = rng.random() < 0.3
    w4 = False
    # every 6th model: fixed-output-range ops (SOFTMAX / LOGISTIC / TANH) feeding
    # further quantized ops, under 8-bit SYMMETRIC activations
    fixed = (k % 6 == 4)
    # every 6th model: a byte-copying op feeding a CONCATENATION whose other operand is 8x
    # wider (requantization needed), under symmetric activations
    requant = (k % 6 == 1)
    if requant:
      mb, info = gg.reshape_concat_model(rng)
    else:
      mb, info = gg.gen_model(rng, n_subgraphs=1 if rng.random() < 0.8 else 2,
                              max_ops=rng.choice([6, 8, 10]) if deep else rng.choice([2, 3, 5]),
                              op_weights=(['SOFTMAX', 'LOGISTIC', 'TANH'] * 2 + ['FULLY_CONNECTED', 'ADD', 'RESHAPE'])
                              if fixed else ((['FULLY_CONNECTED'] * 4 + ['TANH', 'ADD', 'MUL']) if deep else None))
    m_in = og.read(mb)
    qt = quantizer.Quantizer(bytearray(mb))
    if requant:
      c = rng.choice(['a8sw8', 'a16w8', 'a8w8'])
      desc = gr.apply_rules(qt, [('.*', '*', ncfg[c][0], c)])
      if not desc:
        continue
      dist['directed:reshape-concat-requantize'] += 1
    elif fixed:
      desc = gr.apply_rules(qt, [('.*', '*', ncfg['a8sw8'][0], 'a8sw8')])
      if not desc:
        continue
      dist['directed:fixed-range-symmetric'] += 1
    elif rng.random() < 0.6:
      desc = rng.choice(['default_a8w8_recipe', 'default_a16w8_recipe'])
      qt.load_quantization_recipe(copy.deepcopy(ship[desc]))
    else:
      c = rng.choice(['a8w8', 'a8sw8', 'a16w8', 'a8w4', 'a16w4'])
      desc = gr.apply_rules(qt, [('.*', '*', ncfg[c][0], c)])
      if not desc:
        continue
      w4 = c.endswith('w4')
    k += 1
    dist['cases'] += 1
    inp = {'recipe': desc, 'model_hex': mb.hex() if len(mb) < 30000 else None}
    data = gg.random_inputs(mb, rng, 1, scale=rng.choice([0.5, 1.0, 2.0]))
    if requant:
      for smp in data['serving_default']:
        smp['b'] = (smp['b'] * np.float32(8.0)).astype(np.float32)
    feed = {key: v[0] for key, v in data.items()}
    try:
      stats = None
      for key, smp in data.items():
        stats = qt.calibrate(smp, key, previous_calibration_result=stats)
      qb = qt.quantize(stats).quantized_model
    except Exception as e:  # pylint: disable=broad-except
      dist['raises:' + cg.classify_raise(e, m_in)] += 1
      continue
    # 4-bit weights: the rounding noise of the weights alone is of the order of the
    # activations (same tolerance as C13's runtime step for the w4 pairs)
    viol += check_case(qt, mb, qb, feed, inp, dist, ratios, nontrivial, fraction=0.6 if w4 else None)
    dist['w4_cases'] += int(w4)
    if len(samples) < 3:
      samples.append({'recipe': desc, 'ops': info['ops'], 'signatures': list(feed)})
  rs = sorted(ratios)
  out = {
      'interface': 'oracle:C07-runtime', 'evaluations': dist['cases'],
      'distinct_nontrivial': len(nontrivial), 'n_mismatches': 0, 'mismatches': [],
      'oracle_violations': cg.dedup(viol, 2),
      'violation_counts': dict(collections.Counter(v['key'] for v in viol)),
      'distribution': dict(dist), 'samples': samples,
      'error_over_limit': {'n': len(rs), 'median': rs[len(rs) // 2] if rs else None,
                           'p99': rs[int(len(rs) * 0.99)] if rs else None, 'max': rs[-1] if rs else None},
      'tolerance': {'steps': K_STEPS, 'fraction_of_activation_magnitude': FRACTION},
      'wall_s': time.time() - t0,
  }
  with open(out_path, 'w') as f:
    json.dump(out, f, indent=1, default=str)
  print(f'oracle C07: {dist["cases"]} cases, {dist["tensors_compared"]} tensors, error/limit '
        f'{out["error_over_limit"]}, violations {dict(collections.Counter(v["key"] for v in viol))}, '
        f'{time.time() - t0:.0f}s')


if __name__ == '__main__':
  main()
