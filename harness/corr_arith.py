"""Correspondence A: numpy arithmetic of the library vs Model/ArithF32.v,
compared as BIT PATTERNS, plus the direct oracles of C17 (algebraic laws
evaluated on the library functions)."""
import collections
import json
import math
import os
import random
import struct
import sys
import time

sys.path.insert(0, os.path.dirname(os.path.abspath(__file__)))
import vlib
from absl import logging as _l
_l.set_verbosity(_l.ERROR)

import numpy as np
from ai_edge_quantizer import qtyping
from ai_edge_quantizer.algorithms.uniform_quantize import uniform_quantize_tensor as uqt
from ai_edge_quantizer.algorithms.utils import min_max_quantize_utils as mmu
from ai_edge_quantizer.transformations import quantize_tensor as qtm
from ai_edge_quantizer.utils import calibration_utils as cu


def f32bits(x):
  return struct.unpack('<I', struct.pack('<f', float(np.float32(x))))[0]


def f64bits(x):
  return struct.unpack('<Q', struct.pack('<d', float(x)))[0]


def bits_f32(b):
  return np.float32(struct.unpack('<f', struct.pack('<I', b))[0])


def rand_f32(rng):
  k = rng.random()
  if k < 0.55:
    v = rng.gauss(0, 1) * 10 ** rng.uniform(-3, 3)
  elif k < 0.65:
    v = rng.choice([0.0, -0.0, 1e-30, -1e-30, 1e-10, 1.0, -1.0, 1e-4, 5e-5])
  elif k < 0.75:
    v = rng.gauss(0, 1) * 1e30
  elif k < 0.8:
    v = rng.choice([3.0e38, -3.0e38, 1e-38, 1e-45])
  else:
    v = rng.uniform(-6, 6)
  return np.float32(v)


def params(bits, scale, zp, sym):
  qt = uqt.IntType(bits, True)
  zpa = uqt.assign_quantized_type(np.array([zp]), qt)
  return qtyping.UniformQuantParams(bits, None, np.array([scale], dtype=np.float32),
                                    zpa, sym)


def main():
  out_path = sys.argv[1]
  tier = os.environ.get('VERIF_TIER', 'quick')
  seed = int(os.environ.get('VERIF_SEED', '0'))
  rng = random.Random(seed * 15485863 + 7)
  t0 = time.time()
  n = 6000 if tier == 'thorough' else 700
  rows = []      # Coq expressions producing list Z
  exp = []       # expected list of ints
  kinds = collections.Counter()
  viol = []
  nontrivial = set()

  def add(kind, expr, want):
    rows.append(expr)
    exp.append([int(x) for x in want])
    kinds[kind] += 1

  with np.errstate(all='ignore'):
    directed = [(np.float32(a), np.float32(b), bits, sym)
                for (a, b) in ((-3e38, 3e38), (0.0, 3.4e38), (-3.4e38, 0.0), (0.0, 0.0),
                               (-1e-30, 1e-30), (1.0, 1.0), (-2.0, -1.0), (0.5, 2.5),
                               (0.0, 2.55), (-1e-4, 1e-4), (-5e-5, 4e-5))
                for bits in (4, 8, 16) for sym in (False, True)]
    for it in range(n + len(directed)):
      if it < len(directed):
        mn, mx, bits, sym = directed[it]
      else:
        bits = rng.choice([4, 8, 16])
        sym = rng.random() < 0.5
        a, b = rand_f32(rng), rand_f32(rng)
        mn, mx = (a, b) if a <= b else (b, a)
        if rng.random() < 0.1:
          mx = mn
      # ---- zp / scale (float32) ----
      zp, scale = uqt.tensor_zp_scale_from_min_max(
          np.array([[mn]], dtype=np.float32), np.array([[mx]], dtype=np.float32), bits, sym)
      sc = np.float32(scale.flatten()[0])
      qmin, qmax = -(2 ** (bits - 1)), 2 ** (bits - 1) - 1
      finite = bool(np.isfinite(sc)) and sc > 0
      # the model returns the zero point as the rounded float; the library
      # casts it: compare only when the cast is well defined
      add('zp_scale32',
          f'(let r := zp_scale ops32 (b32_of_bits min_bound_f32_bits) {bits} {vlib.coq_bool(sym)} '
          f'(b32_of_bits {f32bits(mn)}) (b32_of_bits {f32bits(mx)}) in '
          f'[bits_of_b32 (snd r); Btrunc 24 128 (fst r)])',
          [f32bits(sc), int(zp.flatten()[0])] if finite else [f32bits(sc), 0])
      if not finite:
        exp[-1] = None      # compare scale only (below)
        rows[-1] = (f'[bits_of_b32 (snd (zp_scale ops32 (b32_of_bits min_bound_f32_bits) {bits} '
                    f'{vlib.coq_bool(sym)} (b32_of_bits {f32bits(mn)}) (b32_of_bits {f32bits(mx)})))]')
        exp[-1] = [f32bits(sc)]
        wide = (not sym) and (max(float(mx), 0.0) - min(float(mn), 0.0)) > 3.4028234663852886e38
        viol.append({'key': 'C17:scale-overflow:range-exceeds-float32' if wide
                     else 'C17:scale-not-finite-positive', 'what':
                     f'min={float(mn)!r} max={float(mx)!r} bits={bits} symmetric={sym}: scale={float(sc)!r}',
                     'input': {'min': float(mn), 'max': float(mx), 'bits': bits, 'symmetric': sym}})
        continue
      zpi = int(zp.flatten()[0])
      # ---- C17 oracles on the library functions ----
      if not qmin <= zpi <= qmax or (sym and zpi != 0):
        viol.append({'key': 'C17:zero-point', 'what': f'zp={zpi} out of range / nonzero for symmetric',
                     'input': {'min': float(mn), 'max': float(mx), 'bits': bits, 'symmetric': sym}})
      p = params(bits, sc, zpi, sym)
      lo = qmin + 1 if sym else qmin
      z = uqt.uniform_quantize(np.array([0.0], dtype=np.float32), p)
      dz = uqt.uniform_dequantize(z, p)
      if float(dz[0]) != 0.0:
        viol.append({'key': 'C17:zero-not-exact', 'what': f'dequantize(quantize(0)) = {float(dz[0])!r}',
                     'input': {'min': float(mn), 'max': float(mx), 'bits': bits, 'symmetric': sym}})
      # quantize random points: range, monotonicity, half-step
      xs = sorted(np.float32(rng.uniform(float(mn) - abs(float(mn)) * 0.2 - 1e-3,
                                         float(mx) + abs(float(mx)) * 0.2 + 1e-3))
                  for _ in range(4))
      xs = [x for x in xs if np.isfinite(x)]
      if xs:
        qs = uqt.uniform_quantize(np.array(xs, dtype=np.float32), p)
        if not all(lo <= int(q) <= qmax for q in qs):
          viol.append({'key': 'C17:quantize-out-of-range', 'what': f'codes {qs.tolist()}',
                       'input': {'min': float(mn), 'max': float(mx), 'bits': bits, 'symmetric': sym}})
        if any(int(qs[i]) > int(qs[i + 1]) for i in range(len(qs) - 1)):
          viol.append({'key': 'C17:quantize-not-monotone', 'what': f'xs {xs} codes {qs.tolist()}',
                       'input': {'min': float(mn), 'max': float(mx), 'bits': bits, 'symmetric': sym}})
        dq = uqt.uniform_dequantize(qs, p)
        for x, q, d in zip(xs, qs, dq):
          if float(mn) <= float(x) <= float(mx) and lo < int(q) < qmax:
            # float32 slack made explicit (DESIGN §4 C05): half a step * (1 + 2^-10)
            if abs(float(d) - float(x)) > float(sc) * 0.5 * (1 + 2 ** -10) + abs(float(x)) * 2 ** -22:
              viol.append({'key': 'C17:half-step', 'what':
                           f'x={float(x)!r} code={int(q)} deq={float(d)!r} scale={float(sc)!r}',
                           'input': {'min': float(mn), 'max': float(mx), 'bits': bits, 'symmetric': sym}})
        for x, q in zip(xs, qs):
          add('quantize32',
              f'[quantize ops32 {bits} {vlib.coq_bool(sym)} (b32_of_bits {f32bits(sc)}) '
              f'{vlib.zlit(zpi)} (b32_of_bits {f32bits(x)})]', [int(q)])
      # quantize(dequantize(c)) = c for codes (all codes for 4/8 bit in thorough)
      if bits <= 8:
        codes = list(range(lo, qmax + 1))
        if tier != 'thorough':
          codes = rng.sample(codes, min(12, len(codes)))
      else:
        codes = [lo, qmax, 0] + [rng.randrange(lo, qmax + 1) for _ in range(8)]
      dt = np.int8 if bits <= 8 else np.int16
      ca = np.array(codes, dtype=dt)
      dd = uqt.uniform_dequantize(ca, p)
      back = uqt.uniform_quantize(dd.astype(np.float32), p)
      badc = [int(c) for c, b2 in zip(codes, back) if int(c) != int(b2)]
      if badc:
        viol.append({'key': 'C17:quantize-dequantize-id', 'what':
                     f'{len(badc)} of {len(codes)} codes do not survive the round trip, e.g. {badc[:3]}',
                     'input': {'min': float(mn), 'max': float(mx), 'bits': bits, 'symmetric': sym}})
      for c, d in list(zip(codes, dd))[:4]:
        add('dequantize', f'[bits_of_b64 (dequantize (b32_of_bits {f32bits(sc)}) {vlib.zlit(zpi)} '
            f'{vlib.zlit(int(c))})]', [f64bits(d)])
      nontrivial.add((bits, sym, f32bits(mn), f32bits(mx)))
      # ---- zp/scale in float64 (fixed-range path) ----
      if rng.random() < 0.2:
        zp64, sc64 = uqt.tensor_zp_scale_from_min_max(np.array(float(mn)), np.array(float(mx)), bits, sym)
        add('zp_scale64',
            f'(let r := zp_scale ops64 (b64_of_bits min_bound_f64_bits) {bits} {vlib.coq_bool(sym)} '
            f'(b64_of_bits {f64bits(float(mn))}) (b64_of_bits {f64bits(float(mx))}) in '
            f'[bits_of_b64 (snd r); Btrunc 53 1024 (fst r)])',
            [f64bits(float(sc64)), int(zp64)])
      # ---- bias ----
      if rng.random() < 0.3:
        s_in = np.float32(abs(rand_f32(rng)) % 10 + 1e-4)
        s_w = np.float32(abs(rand_f32(rng)) % 10 + 1e-4)
        bv = np.float32(rng.gauss(0, 3))
        bb = rng.choice([8, 16])
        pin = qtyping.UniformQuantParams(bb, None, np.array([s_in], dtype=np.float32), np.array([0]), True)
        pw = qtyping.UniformQuantParams(8, None, np.array([s_w], dtype=np.float32), np.array([0]), True)
        r = uqt.symmetric_quantize_bias_tensor(np.array([bv], dtype=np.float32), pin, pw)
        nb = 64 if bb == 16 else 32
        eff = np.float32(r.scale.flatten()[0])
        ratio = abs(float(bv) / float(eff)) if eff else float('inf')
        if r.num_bits == nb and ratio < 2 ** (nb - 2):
          add('bias', f'[quantize_bias {nb} (b32_of_bits {f32bits(s_in)}) (b32_of_bits {f32bits(s_w)}) '
              f'(b32_of_bits {f32bits(bv)}); bits_of_b32 (bias_scale (b32_of_bits {f32bits(s_in)}) '
              f'(b32_of_bits {f32bits(s_w)}))]',
              [int(r.quantized_data[0]), f32bits(eff)])
      # ---- moving average ----
      if rng.random() < 0.3:
        w, u = rand_f32(rng), rand_f32(rng)
        r = cu.moving_average_update({'min': np.array([w], dtype=np.float32), 'max': np.array([w], dtype=np.float32)},
                                     {'min': np.array([u], dtype=np.float32), 'max': np.array([u], dtype=np.float32)})
        add('ema', f'[bits_of_b32 (moving_average ops32 (b32_of_bits ema_old_f32_bits) '
            f'(b32_of_bits ema_new_f32_bits) (b32_of_bits {f32bits(w)}) (b32_of_bits {f32bits(u)}))]',
            [f32bits(r['min'][0])])
      # ---- float16 ----
      if rng.random() < 0.3:
        x = rand_f32(rng)
        if rng.random() < 0.4:      # around the float16 range and its subnormals
          x = np.float32(rng.choice([65504.0, 65519.0, 65519.996, 65520.0, -65520.0, 65536.0, 1e5, -3e7,
                                     6.1035156e-05, 6.0e-05, 5.9604645e-08, 2.9802322e-08, 2.98e-08,
                                     1.0009766, 1.0004883, 1.0014648]) * rng.choice([1.0, 1.0, -1.0]))
        h = np.array([x], dtype=np.float32).astype(np.float16)
        if not np.isnan(h[0]):
          add('f16', f'[f32_to_f16_bits (b32_of_bits {f32bits(x)})]',
              [int(h.view(np.uint16)[0])])
    # ---- tensors of rank 0..3 with flattened (flatbuffer-style) or
    #      per-channel parameters: exercises fix_quantization_params_rank ----
    for _ in range(n // 10 + 5):
      bits = rng.choice([4, 8, 16])
      sym = rng.random() < 0.4
      rank = rng.choice([0, 1, 2, 2, 3])
      shape = [rng.choice([1, 2, 3]) for _ in range(rank)]
      data = np.array([rand_f32(rng) % 5 for _ in range(int(np.prod(shape)) if shape else 1)],
                      dtype=np.float32).reshape(shape)
      # per-tensor parameters are either of the tensor's rank (as the library
      # produces them) or flattened with quantized_dimension 0 (as the
      # interpreter reports them); per-channel ones are flattened along qd
      mode = 'scalar' if rank == 0 else rng.choice(['same_rank', 'flat0', 'channel', 'channel'])
      qd = rng.randrange(rank) if mode == 'channel' else (0 if mode == 'flat0' else None)
      nch = shape[qd] if mode == 'channel' else 1
      scs, zps = [], []
      for _c in range(nch):
        lo_, hi_ = sorted([rng.uniform(-5, 5), rng.uniform(-5, 5)])
        zpc, scc = uqt.tensor_zp_scale_from_min_max(np.array([lo_], dtype=np.float32),
                                                    np.array([hi_], dtype=np.float32), bits, sym)
        scs.append(np.float32(scc[0])); zps.append(int(zpc[0]))
      qt = uqt.IntType(bits, True)
      pshape = [1] * rank if mode == 'same_rank' else [nch]
      p = qtyping.UniformQuantParams(bits, qd, np.array(scs, dtype=np.float32).reshape(pshape),
                                     uqt.assign_quantized_type(np.array(zps).reshape(pshape), qt), sym)
      try:
        q = uqt.uniform_quantize(data, p)
        d = uqt.uniform_dequantize(q, p)
      except Exception as e:  # pylint: disable=broad-except
        viol.append({'key': 'C17:rank-fixup-raises', 'what': f'{type(e).__name__}: {e}',
                     'input': {'shape': shape, 'qdim': qd, 'bits': bits}})
        continue
      if list(np.shape(q)) != list(shape) or list(np.shape(d)) != list(shape):
        # quantization is element-wise: the codes have the tensor's shape
        viol.append({'key': 'C17:result-shape', 'what':
                     f'uniform_quantize/dequantize of a tensor of shape {shape} (layout {mode}, qdim {qd}) '
                     f'returns shapes {list(np.shape(q))} / {list(np.shape(d))}',
                     'input': {'shape': shape, 'qdim': qd, 'bits': bits, 'symmetric': sym,
                               'scales': [float(x) for x in scs], 'zps': zps}})
        continue
      # saturation: values far beyond the range (also beyond int64 when divided by the
      # scale, also +-inf after the float32 division) end at the extreme codes
      lo_s, hi_s = -(2 ** (bits - 1)) + (1 if sym else 0), 2 ** (bits - 1) - 1
      for big in (1e15, 1e19, 1e24, 3e38):
        for sign, want in ((1.0, hi_s), (-1.0, lo_s)):
          try:
            with np.errstate(all='ignore'):
              qb = uqt.uniform_quantize(np.full(shape, sign * big, dtype=np.float32), p)
            if not np.all(qb == want):
              viol.append({'key': 'C17:saturation', 'what':
                           f'{sign * big:g} quantizes to {np.unique(qb).tolist()} instead of saturating at {want} '
                           f'({bits} bit, symmetric {sym}, scales {[float(x) for x in scs][:2]})',
                           'input': {'shape': shape, 'qdim': qd, 'bits': bits, 'symmetric': sym, 'value': sign * big,
                                     'scales': [float(x) for x in scs], 'zps': zps}})
          except Exception as e:  # pylint: disable=broad-except
            viol.append({'key': 'C17:rank-fixup-raises', 'what': f'{type(e).__name__}: {e}',
                         'input': {'shape': shape, 'qdim': qd, 'bits': bits}})
      # every code survives dequantize -> quantize, whatever the parameter layout
      lo_c = -(2 ** (bits - 1)) + (1 if sym else 0)
      for code in (lo_c, 2 ** (bits - 1) - 1, 0, lo_c + 1):
        ca = np.full(shape, code, dtype=np.int8 if bits <= 8 else np.int16)
        try:
          back = uqt.uniform_quantize(uqt.uniform_dequantize(ca, p).astype(np.float32), p)
          if not np.array_equal(back, ca):
            viol.append({'key': 'C17:quantize-dequantize-id', 'what':
                         f'code {code} comes back as {np.unique(back).tolist()} '
                         f'(shape {shape}, qdim {qd}, layout {mode}, symmetric {sym})',
                         'input': {'shape': shape, 'qdim': qd, 'bits': bits, 'symmetric': sym,
                                   'scales': [float(x) for x in scs], 'zps': zps}})
        except Exception as e:  # pylint: disable=broad-except
          viol.append({'key': 'C17:rank-fixup-raises', 'what': f'{type(e).__name__}: {e}',
                       'input': {'shape': shape, 'qdim': qd, 'bits': bits}})
      for idx in np.ndindex(*shape) if shape else [()]:
        ch = idx[qd] if mode == 'channel' else 0
        add('quantize_nd',
            f'[quantize ops32 {bits} {vlib.coq_bool(sym)} (b32_of_bits {f32bits(scs[ch])}) '
            f'{vlib.zlit(zps[ch])} (b32_of_bits {f32bits(data[idx])}); '
            f'bits_of_b64 (dequantize (b32_of_bits {f32bits(scs[ch])}) {vlib.zlit(zps[ch])} '
            f'{vlib.zlit(int(q[idx]))})]', [int(q[idx]), f64bits(d[idx])])
        # C17: per-channel parameters act only along their own channel
    # ---- fixed ranges ----
    for bits, scale, zpv, sym in ((8, 1.0 / 256, -128, False), (16, 1.0 / 32768, 0, True),
                                  (8, 1.0 / 128, 0, False), (16, 1.0 / 32768, 0, True),
                                  (8, 1.0 / 256, -128, True), (8, 1.0 / 128, 0, True)):
      fp = qtyping.UniformQuantParams(bits, None, np.array(scale), np.array(zpv), sym)
      mnv, mxv = mmu._get_min_max_from_quant_params(bits, sym, fp)  # pylint: disable=protected-access
      add('fixed', f'(let r := fixed_min_max {bits} {vlib.coq_bool(sym)} (b64_of_bits {f64bits(scale)}) '
          f'{vlib.zlit(zpv)} in [bits_of_b64 (fst r); bits_of_b64 (snd r)])',
          [f64bits(float(mnv)), f64bits(float(mxv))])
    # ---- int4 packing ----
    for _ in range(60 if tier == 'thorough' else 12):
      ln = rng.randrange(1, 12)
      vals = [rng.randrange(-8, 8) for _ in range(ln)]
      raw = np.frombuffer(np.array(vals, dtype=np.int8).tobytes(), dtype=np.uint8)
      packed = qtm._pack_data(4, raw)  # pylint: disable=protected-access
      add('pack', f'(pack4 {vlib.coq_list([vlib.zlit(v) for v in vals])} ++ '
          f'unpack4 {ln}%nat (pack4 {vlib.coq_list([vlib.zlit(v) for v in vals])}))',
          [int(x) for x in packed] + vals)
  shards = vlib.shard(list(range(len(rows))), 400)
  files = [(f'arith_{si}',
            'From Coq Require Import ZArith List.\nFrom Flocq Require Import Core IEEE754.Binary IEEE754.Bits.\n'
            'From VF Require Import Gen.Consts Model.ArithF32.\nImport ListNotations.\nOpen Scope Z_scope.\n'
            'Definition rows : list (list Z) := [\n' + ';\n'.join(rows[i] for i in idxs) +
            '\n].\nEval vm_compute in rows.\n') for si, idxs in enumerate(shards)]
  results = vlib.run_case_files(files, jobs=int(os.environ.get('VERIF_JOBS', '12')),
                                timeout=1500)
  mism = []
  for si, idxs in enumerate(shards):
    got = results[f'arith_{si}']
    for k, i in enumerate(idxs):
      if got[k] != exp[i]:
        mism.append({'row': rows[i][:300], 'impl': exp[i], 'model': got[k]})
  from corr_graph import dedup
  out = {
      'interface': 'A', 'evaluations': len(rows),
      'distinct_nontrivial': len(nontrivial), 'kinds': dict(kinds),
      'n_mismatches': len(mism), 'mismatches': mism[:10],
      'oracle_violations': dedup(viol, 3),
      'samples': [{'expr': rows[i][:200], 'bits': exp[i]} for i in (0, len(rows) // 2)],
      'wall_s': time.time() - t0,
  }
  with open(out_path, 'w') as f:
    json.dump(out, f, indent=1, default=str)
  print(f'corr A: {len(rows)} rows {dict(kinds)}, {len(mism)} mismatches, '
        f'{len(viol)} oracle violations, {time.time() - t0:.0f}s')


if __name__ == '__main__':
  main()
