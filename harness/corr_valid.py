"""Correspondence V + direct oracle for C18 (validate / compare_model).

V: ComparisonResult.add_new_signature_results on real models with (a) the
   result dict compare_model produces and (b) adversarial dicts (a role name
   missing, extra names) vs Model/Valid.v `partition` (groups or KeyError).
Oracle: every value reported by Quantizer.validate() / compare_model() is
   recomputed from the check's own interpreter runs (own dequantisation,
   float64 metric, mean over samples); every common tensor name appears
   exactly once and under the right group; self-comparison reports 0;
   MSE is symmetric, both metrics non-negative and 0 on equal arguments.

argv: out.json"""
import collections
import copy
import json
import os
import random
import sys
import time

sys.path.insert(0, os.path.dirname(os.path.abspath(__file__)))
import vlib
from absl import logging as _l
_l.set_verbosity(_l.ERROR)

import numpy as np
from ai_edge_litert import interpreter as tfl
from ai_edge_quantizer import model_validator
from ai_edge_quantizer import quantizer
from ai_edge_quantizer.utils import validation_utils
import gen_graph as gg
import gen_recipe as gr
import oracle_graph as og
import corr_graph as cg
import corr_recipe as cr


def own_run(model_bytes, key, sample):
  """name -> dequantized float64 array for every named tensor of the signature's subgraph"""
  it = tfl.Interpreter(model_content=bytes(model_bytes),
                       experimental_op_resolver_type=tfl.OpResolverType.BUILTIN_WITHOUT_DEFAULT_DELEGATES,
                       experimental_preserve_all_tensors=True)
  it.allocate_tensors()
  r = it.get_signature_runner(key)
  feed = {}
  for name, det in r.get_input_details().items():
    arr = np.asarray(sample[name])
    qp = det['quantization_parameters']
    if len(qp['scales']):
      info = np.iinfo(det['dtype'])
      q = np.rint(arr.astype(np.float32) * (np.float32(1.0) / np.float32(qp['scales'][0])) + qp['zero_points'][0])
      lo = info.min + (1 if not np.any(qp['zero_points']) else 0)   # symmetric: narrow range
      arr = np.clip(q, lo, info.max).astype(det['dtype'])
    feed[name] = arr
  r(**feed)
  sg = r._subgraph_index  # pylint: disable=protected-access
  out = {}
  file_q = {}
  for t in og.read(model_bytes).subgraphs[sg].tensors:
    q = t.quantization
    if q is not None and q.scale is not None and len(q.scale):
      file_q[og.tname(t)] = (np.asarray(q.scale, dtype=np.float64),
                             np.asarray(q.zeroPoint, dtype=np.float64), int(q.quantizedDimension))
  for det in it.get_tensor_details(sg):
    if not det['name'] or det['dtype'] == np.object_:
      continue
    try:
      v = it.get_tensor(det['index'], sg)
    except ValueError:
      continue
    # quantization parameters as the model FILE states them (a kernel may rewrite
    # the interpreter's copy at run time, see F24)
    ft = file_q.get(det['name'])
    v64 = v.astype(np.float64)
    if ft is not None:
      sc, zp, qd = ft
      if len(sc) > 1:
        shape = [1] * v.ndim
        shape[qd] = len(sc)
        sc, zp = sc.reshape(shape), zp.reshape(shape)
      v64 = (v64 - zp) * sc
    out[det['name']] = v64
  ins = [d['name'] for d in r.get_input_details().values()]
  outs = [d['name'] for d in r.get_output_details().values()]
  return out, ins, outs, sg


def ref_metric(metric, target, ref):
  a = np.nan_to_num(np.asarray(target, dtype=np.float32).flatten(), nan=1e-9, neginf=-1e9, posinf=1e9).astype(np.float64)
  b = np.nan_to_num(np.asarray(ref, dtype=np.float32).flatten(), nan=1e-9, neginf=-1e9, posinf=1e9).astype(np.float64)
  if a.size == 0:
    return 0.0
  if metric == 'mse':
    return float(np.mean((a - b) ** 2))
  return float(np.median(np.abs(a - b) / (np.abs(b) + 1e-6)))


def close(x, y):
  return abs(x - y) <= 1e-4 * max(abs(x), abs(y)) + 1e-10


PRELUDE = '''From VF Require Import Base.Prelude Model.Valid.
Open Scope Z_scope.
Definition J_group (g : list (Z * Z)) : J := Jlist (fun kv => JL [JZ (fst kv); JZ (snd kv)]) g.
Definition run_case (c : list (Z * Z) * list Z * list Z * list Z) : list Z :=
  let '(r, ins, outs, consts) := c in
  flat (Jres (fun g => JL [J_group (g_inputs g); J_group (g_outputs g); J_group (g_constants g);
                           J_group (g_intermediates g)]) (partition r ins outs consts)).
'''


APRELUDE = '''From VF Require Import Base.Prelude Model.Valid.
Open Scope Z_scope.
(* n test inputs, each visiting [names]; compare_fn = 2^(input index) *)
Definition run_agg (c : list Z * nat) : list Z :=
  let '(names, n) := c in
  let samples := map (fun i => map (fun nm => (nm, 2 ^ Z.of_nat i)) names) (seq 0 n) in
  flat_map (fun kl => [fst kl; fold_left Z.add (snd kl) 0; Z.of_nat (length (snd kl))]) (collect samples).
'''


def main():
  out_path = sys.argv[1]
  tier = os.environ.get('VERIF_TIER', 'quick')
  seed = int(os.environ.get('VERIF_SEED', '0'))
  rng = random.Random(seed * 982451653 % (2 ** 31) + 41)
  t0 = time.time()
  n_models = 800 if tier == 'thorough' else 80
  viol = []
  dist = collections.Counter()
  nontrivial = set()
  samples = []
  vcases = []
  acases = []
  ship = gr.shipped()
  k = 0
  while k < n_models:
    # every 5th model: RSQRT on arbitrary (also negative) inputs, so that the
    # FLOAT reference holds NaN/inf where the quantized model stays finite
    nonfinite = (k % 5 == 3)
    # every 7th model: 16-bit activations with tiny weights and ordinary biases:
    # the int64 bias codes exceed the int32 range
    wide_bias = (k % 7 == 5) and not nonfinite
    gg.RSQRT_ANY = nonfinite
    # every 6th model returns one of its inputs and/or one of its constants as well
    gg.PASSTHROUGH_PROB, gg.CONST_OUTPUT_PROB = (0.7, 0.5) if k % 6 == 2 else (0.08, 0.0)
    saved_kinds = gg.CONST_KINDS
    if wide_bias:
      gg.CONST_KINDS = ['tiny', 'tiny', 'normal']
    try:
      mb, info = gg.gen_model(rng, max_ops=rng.choice([3, 5, 8]),
                              op_weights=(['RSQRT'] * 2 + gg.SUPPORTED) if nonfinite else
                              (['FULLY_CONNECTED'] * 3 + ['CONV_2D', 'TANH', 'ADD'] if wide_bias else None))
    finally:
      gg.RSQRT_ANY = False
      gg.PASSTHROUGH_PROB, gg.CONST_OUTPUT_PROB = 0.08, 0.0
      gg.CONST_KINDS = saved_kinds
    dist['nonfinite_stream'] += int(nonfinite)
    dist['wide_bias_stream'] += int(wide_bias)
    qt = quantizer.Quantizer(bytearray(mb))
    if wide_bias:
      desc = 'default_a16w8_recipe'
      qt.load_quantization_recipe(copy.deepcopy(ship[desc]))
    elif nonfinite and rng.random() < 0.7:
      desc = 'default_a8w8_recipe'          # int8 RSQRT stays finite out of domain
      qt.load_quantization_recipe(copy.deepcopy(ship[desc]))
    elif rng.random() < 0.5:
      desc = rng.choice(gr.DEFAULT_SHIPPED)
      qt.load_quantization_recipe(copy.deepcopy(ship[desc]))
    else:
      rules, fam = gr.gen_rules(rng, mb)
      desc = gr.apply_rules(qt, rules)
      if not desc:
        continue
    k += 1
    data = gg.random_inputs(mb, rng, rng.choice([1, 2, 3]))
    inp = {'recipe': desc, 'model_hex': mb.hex() if len(mb) < 30000 else None}
    try:
      cal = data
      if nonfinite:     # calibrate INSIDE rsqrt's domain, validate outside it
        cal = {k_: [{a: (np.abs(x) + np.float32(0.5)) if x.dtype == np.float32 else x
                     for a, x in smp.items()} for smp in v_] for k_, v_ in data.items()}
      stats = gr.own_stats(mb, cal) if qt.need_calibration else None
      qbytes = qt.quantize(stats).quantized_model
    except Exception as e:  # pylint: disable=broad-except
      dist['quantize_raises'] += 1
      continue
    dist['cases'] += 1
    metric = rng.choice(['mse', 'median_diff_ratio'])
    dist['metric=' + metric] += 1
    for mode in ('validate', 'self'):
      try:
        if mode == 'validate':
          res = qt.validate(copy.deepcopy(data), metric)
          target = qbytes
        else:
          res = model_validator.compare_model(mb, mb, copy.deepcopy(data), metric,
                                              validation_utils.get_validation_func(metric))
          target = mb
      except Exception as e:  # pylint: disable=broad-except
        if mode == 'validate' and 'failed to prepare' in str(e) and og.run_interpreter(qbytes)[0] != 'ok':
          # the quantized model itself cannot be prepared by the interpreter: C01's
          # business (F27: a constant that is also a graph output), not the validator's
          dist['target_model_not_runnable'] += 1
          continue
        if nonfinite and 'Rsqrt is only defined for positive values' in str(e):
          # the integer RSQRT kernel refuses out-of-domain test data: the
          # RUNTIME rejects the input, there is no comparison to check
          dist['runtime_refuses_out_of_domain_input'] += 1
          continue
        viol.append({'key': f'C18:{mode}-raises', 'what': f'{type(e).__name__}: {str(e)[:200]}', 'input': inp})
        continue
      for key in data:
        try:
          sr = res.get_signature_comparison_result(key)
        except Exception as e:  # pylint: disable=broad-except
          viol.append({'key': 'C18:signature-missing', 'what': f'{key}: {e}', 'input': inp})
          continue
        groups = {'inputs': sr.input_tensors, 'outputs': sr.output_tensors,
                  'constants': sr.constant_tensors, 'intermediates': sr.intermediate_tensors}
        # own recomputation
        per = collections.defaultdict(list)
        ins = outs = None
        consts = set()
        unstable = set()
        for sample in data[key]:
          ref, ins, outs, sg = own_run(mb, key, sample)
          tg, _, _, _ = own_run(target, key, sample)
          # tensors on which two runs of the SAME model disagree (F20: the hybrid
          # depthwise kernel on per-tensor weights reads uninitialised data) have
          # no well-defined content to compare the reported value with
          tg2, _, _, _ = own_run(target, key, sample)
          for nm in tg:
            if nm in tg2 and not np.array_equal(tg[nm], tg2[nm], equal_nan=True):
              unstable.add(nm)
          for nm, v in ref.items():
            if nm in tg:
              per[nm].append(ref_metric(metric, tg[nm], v))
              if mode == 'validate' and not np.all(np.isfinite(v)):
                dist['ref_nonfinite'] += 1
                dist['ref_nonfinite_target_finite'] += int(np.all(np.isfinite(tg[nm])))
        m_ref = og.read(mb)
        gref = m_ref.subgraphs[sg]
        consts = {og.tname(t) for t in gref.tensors if og.is_const(m_ref, t)}
        want = {nm: float(np.mean(vs)) for nm, vs in per.items()}
        # runtime temporaries (kernel scratch buffers) are tensors of the
        # interpreter, not of the model: their (uninitialised) contents are
        # outside the property; they must still be filed exactly once
        model_names = {og.tname(t) for t in gref.tensors}
        seen = collections.Counter()
        for gname, g in groups.items():
          for nm, val in g.items():
            seen[nm] += 1
            if nm in want and nm not in model_names:
              dist['runtime_temporaries_skipped'] += 1
              continue
            if nm in unstable:
              dist['runtime_nondeterministic_skipped'] += 1
              continue
            if nm not in want:
              viol.append({'key': 'C18:unexpected-name', 'what': f'{mode} {key}: {nm} reported under {gname} '
                           'but is not a tensor of both models', 'input': inp})
              continue
            if not (isinstance(val, float) and close(val, want[nm])):
              viol.append({'key': f'C18:value-wrong:{metric}', 'what':
                           f'{mode} {key}: {nm} ({gname}) reported {val!r}, recomputed {want[nm]!r}', 'input': inp})
            if val < 0:
              viol.append({'key': 'C18:negative-metric', 'what': f'{nm}: {val}', 'input': inp})
            if mode == 'self' and val != 0:
              viol.append({'key': 'C18:self-compare-nonzero', 'what': f'{key}: {nm} = {val}', 'input': inp})
            role = ('inputs' if nm in ins else 'outputs' if nm in outs else
                    'constants' if nm in consts else 'intermediates')
            if role != gname:
              viol.append({'key': 'C18:wrong-group', 'what': f'{mode} {key}: {nm} filed under {gname}, is {role}',
                           'input': inp})
        for nm in want:
          if seen[nm] != 1:
            viol.append({'key': 'C18:name-count', 'what': f'{mode} {key}: {nm} appears {seen[nm]} times',
                         'input': inp})
        dist['tensors_checked'] += len(want)
        if mode == 'validate' and any(v > 0 for v in want.values()):
          nontrivial.add(json.dumps(sorted(want.items()))[:2000])
        # ---- correspondence V: the filing of exactly this dict ----
        names = cr.Intern()
        r_lit = [(names(nm), i) for i, nm in enumerate(want)]
        role_lists = ([names(x) for x in ins], [names(x) for x in outs],
                      [names(og.tname(t)) for t in gref.tensors if og.tname(t) in consts and og.tname(t) in want])
        exp = [0, [[[names(nm), dict(r_lit)[names(nm)]] for nm in g] for g in
                   (sr.input_tensors, sr.output_tensors, sr.constant_tensors, sr.intermediate_tensors)]]
        # the model's constant list is taken from the implementation's group (order of the library)
        role_lists = (role_lists[0], role_lists[1], [names(nm) for nm in sr.constant_tensors])
        # dict order of the implementation's result = order of reference tensor details
        order = [names(nm) for g in (sr.input_tensors, sr.output_tensors, sr.constant_tensors,
                                     sr.intermediate_tensors) for nm in g]
        if mode == 'validate':
          vcases.append((r_lit, role_lists, exp, desc, 'real'))
    # ---- adversarial filing cases on this model (direct call) ----
    for key in list(data)[:1]:
      ref, ins, outs, sg = own_run(mb, key, data[key][0])
      names = cr.Intern()
      allnames = list(ref)
      for variant in ('drop-input', 'drop-output', 'extra', 'plain'):
        d = {nm: float(i) for i, nm in enumerate(allnames)}
        if variant == 'drop-input' and ins:
          d.pop(ins[0], None)
        if variant == 'drop-output' and outs:
          d.pop(outs[-1], None)
        if variant == 'extra':
          d['__not_a_tensor__'] = 123.0
        cres = model_validator.ComparisonResult(mb, mb)
        try:
          cres.add_new_signature_results('mse', dict(d), key)
          sr = cres.get_signature_comparison_result(key)
          exp = [0, [[[names(nm), int(v)] for nm, v in g.items()] for g in
                     (sr.input_tensors, sr.output_tensors, sr.constant_tensors, sr.intermediate_tensors)]]
          const_names = [names(nm) for nm in sr.constant_tensors]
        except Exception as e:  # pylint: disable=broad-except
          exp = [1, cr.exn_code(e)]
          m_ref = og.read(mb)
          const_names = [names(og.tname(t)) for t in m_ref.subgraphs[sg].tensors
                         if og.is_const(m_ref, t) and og.tname(t) in d]
        r_lit = [(names(nm), int(v)) for nm, v in d.items()]
        vcases.append((r_lit, ([names(x) for x in ins], [names(x) for x in outs], const_names), exp, desc, variant))
        dist['filing:' + variant] += 1
    # ---- correspondence for the aggregation loop (Model/Valid.aggregate) ----
    # compare_fn returns 2^(index of the test input): the reported value of every
    # tensor must be the model's (sum of the collected values) / (their number)
    if not nonfinite:
      nsm = rng.choice([1, 2, 3, 4, 5, 6])
      agg_data = gg.random_inputs(mb, rng, nsm)
      cur = [0]

      def feed(smps):
        for i_, s_ in enumerate(smps):
          cur[0] = i_
          yield s_
      try:
        ares = model_validator.compare_model(mb, qbytes, {k_: feed(v_) for k_, v_ in agg_data.items()}, 'vf',
                                             lambda a_, b_: float(2 ** cur[0]))
        for key in agg_data:
          sr = ares.get_signature_comparison_result(key)
          rep = {}
          for g in (sr.input_tensors, sr.output_tensors, sr.constant_tensors, sr.intermediate_tensors):
            rep.update({names(nm): float(v) for nm, v in g.items()})
          acases.append((sorted(rep), nsm, rep, desc))
          dist[f'aggregation:inputs={nsm}'] += 1
      except Exception as e:  # pylint: disable=broad-except
        dist['aggregation_raises'] += 1
    if len(samples) < 3:
      samples.append({'recipe': desc, 'metric': metric, 'signatures': list(data)})
  # ---- model side: aggregation ----
  amism = []
  if acases:
    shards = vlib.shard(list(range(len(acases))), 100)
    alit = lambda c: (f'({cg.c_zlist(c[0])}, {c[1]}%nat)')
    files = [(f'agg_{si}', APRELUDE + 'Definition cases : list (list Z * nat) := [\n' +
              ';\n'.join(alit(acases[i]) for i in idxs) + '\n].\nEval vm_compute in (map run_agg cases).\n')
             for si, idxs in enumerate(shards)]
    results = vlib.run_case_files(files, jobs=8, timeout=900)
    for si, idxs in enumerate(shards):
      got = results[f'agg_{si}']
      for j, i in enumerate(idxs):
        flat = got[j]
        model = {flat[x]: (flat[x + 1], flat[x + 2]) for x in range(0, len(flat), 3)}
        rep = acases[i][2]
        ok = set(model) == set(rep) and all(model[n][1] > 0 and rep[n] == model[n][0] / model[n][1] for n in rep)
        if not ok:
          bad = [n for n in rep if n not in model or model[n][1] == 0 or rep[n] != model[n][0] / model[n][1]]
          amism.append({'case': i, 'variant': 'aggregation', 'recipe': acases[i][3], 'inputs': acases[i][1],
                        'model': str({n: model.get(n) for n in bad[:3]}),
                        'impl': str({n: rep[n] for n in bad[:3]})})
          viol.append({'key': 'C18:not-the-mean-over-the-test-inputs', 'what':
                       f'with compare_fn = 2^(input index) and {acases[i][1]} test inputs, tensor(s) '
                       f'{bad[:3]} are reported as {[rep[n] for n in bad[:3]]}; the mean over the inputs is '
                       f'{(2 ** acases[i][1] - 1) / acases[i][1]}',
                       'input': {'recipe': acases[i][3], 'n_inputs': acases[i][1]}})
  # ---- model side ----
  mism = []
  if vcases:
    def lit(c):
      r_lit, (i, o, cs), _, _, _ = c
      return (f'({vlib.coq_list([f"({a}, {vlib.zlit(b)})" for a, b in r_lit])}, {cg.c_zlist(i)}, '
              f'{cg.c_zlist(o)}, {cg.c_zlist(cs)})')
    shards = vlib.shard(list(range(len(vcases))), 100)
    files = [(f'valid_{si}', PRELUDE + 'Definition cases : list (list (Z * Z) * list Z * list Z * list Z) := [\n' +
              ';\n'.join(lit(vcases[i]) for i in idxs) + '\n].\nEval vm_compute in (map run_case cases).\n')
             for si, idxs in enumerate(shards)]
    results = vlib.run_case_files(files, jobs=8, timeout=900)
    for si, idxs in enumerate(shards):
      got = results[f'valid_{si}']
      for j, i in enumerate(idxs):
        jr = vlib.unflat(got[j])
        exp = vcases[i][2]
        if jr != exp:
          mism.append({'case': i, 'variant': vcases[i][4], 'recipe': vcases[i][3],
                       'model': str(jr)[:300], 'impl': str(exp)[:300]})
  mism += amism
  out = {
      'interface': 'V', 'evaluations': dist['cases'] + len(vcases) + len(acases),
      'distinct_nontrivial': len(nontrivial),
      'n_mismatches': len(mism), 'mismatches': mism[:10],
      'oracle_violations': cg.dedup(viol, 2),
      'violation_counts': dict(collections.Counter(v['key'] for v in viol)),
      'distribution': dict(dist), 'samples': samples, 'filing_cases': len(vcases),
      'wall_s': time.time() - t0,
  }
  with open(out_path, 'w') as f:
    json.dump(out, f, indent=1, default=str)
  print(f'corr V: {dist["cases"]} models, {dist["tensors_checked"]} tensor values recomputed, {len(vcases)} filing '
        f'cases, {len(mism)} mismatches, violations {dict(collections.Counter(v["key"] for v in viol))}, '
        f'{time.time() - t0:.0f}s')


if __name__ == '__main__':
  main()
