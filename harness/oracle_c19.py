"""Direct oracle for C19: subgraph i of quantize(multi-subgraph model) equals
subgraph 0 of quantize(the single-subgraph model made of subgraph i), with the
same recipe and the same statistics, compared structurally (operators by
builtin code, wiring, options, tensor names / shapes / dtypes / quantization
parameters, constants by decoded buffer content, subgraph I/O, signature) —
i.e. up to renumbering of the merged opcode and buffer tables.

argv: out.json"""
import collections
import copy
import json
import os
import random
import sys
import time

sys.path.insert(0, os.path.dirname(os.path.abspath(__file__)))
from absl import logging as _l
_l.set_verbosity(_l.ERROR)

import numpy as np
from ai_edge_quantizer import quantizer
from tensorflow.lite.tools import flatbuffer_utils as FU
import gen_graph as gg
import gen_recipe as gr
import oracle_graph as og
import corr_graph as cg


def dup_names(mb, rng):
  """the same model with ONE tensor of a later subgraph renamed to the name of a
  tensor of subgraph 0 (a layer exported under two signatures): outside the
  library's input contract — it must be refused, not mis-transformed"""
  m = FU.read_model_from_bytearray(bytearray(mb))
  if len(m.subgraphs) < 2:
    return None
  g0 = m.subgraphs[0]
  gj = m.subgraphs[rng.randrange(1, len(m.subgraphs))]
  is_c = lambda t: m.buffers[t.buffer].data is not None and len(m.buffers[t.buffer].data) > 0
  pairs = [(a, b) for a in g0.tensors for b in gj.tensors
           if a.type == 0 and b.type == 0 and is_c(a) == is_c(b)]
  if not pairs:
    return None
  same = [(a, b) for a, b in pairs if list(a.shape) == list(b.shape)]
  a, b = rng.choice(same or pairs)
  b.name = a.name
  return bytes(FU.convert_object_to_bytearray(m))


def extract(mb, i):
  m = copy.deepcopy(og.read(mb))
  m.subgraphs = [m.subgraphs[i]]
  sds = [sd for sd in (m.signatureDefs or []) if int(sd.subgraphIndex) == i]
  for sd in sds:
    sd.subgraphIndex = 0
  m.signatureDefs = sds
  return bytes(FU.convert_object_to_bytearray(m))


def canon(m, gi, sg_index_for_sigs):
  g = m.subgraphs[gi]
  ts = []
  for t in g.tensors:
    q = t.quantization
    qq = None
    if q is not None and q.scale is not None and len(q.scale):
      qq = (tuple(float(np.float32(x)) for x in q.scale), tuple(int(x) for x in q.zeroPoint),
            int(q.quantizedDimension))
    b = m.buffers[t.buffer]
    data = None if b.data is None or len(b.data) == 0 else bytes(
        np.asarray(b.data, dtype=np.uint8).tobytes()).hex()
    ts.append((og.tname(t), tuple(int(x) for x in t.shape), int(t.type), qq, data))
  ops = []
  for o in g.operators:
    ops.append((int(m.operatorCodes[o.opcodeIndex].builtinCode), tuple(int(x) for x in o.inputs),
                tuple(int(x) for x in o.outputs), int(o.builtinOptionsType),
                og._opts_repr(o.builtinOptions)))  # pylint: disable=protected-access
  sigs = []
  for sd in (m.signatureDefs or []):
    if int(sd.subgraphIndex) == sg_index_for_sigs:
      sigs.append((sd.signatureKey, tuple((tm.name, int(tm.tensorIndex)) for tm in sd.inputs),
                   tuple((tm.name, int(tm.tensorIndex)) for tm in sd.outputs)))
  return {'tensors': ts, 'ops': ops, 'inputs': tuple(int(x) for x in g.inputs),
          'outputs': tuple(int(x) for x in g.outputs), 'signatures': sigs}


def first_diff(a, b):
  for k in ('ops', 'inputs', 'outputs', 'signatures'):
    if a[k] != b[k]:
      return f'{k}: multi {str(a[k])[:160]} vs alone {str(b[k])[:160]}'
  if len(a['tensors']) != len(b['tensors']):
    return f'tensor count {len(a["tensors"])} vs {len(b["tensors"])}'
  for i, (x, y) in enumerate(zip(a['tensors'], b['tensors'])):
    if x != y:
      for fld, u, v in zip(('name', 'shape', 'dtype', 'quantization', 'constant bytes'), x, y):
        if u != v:
          return f'tensor {i} ({x[0]}): {fld} multi {str(u)[:100]} vs alone {str(v)[:100]}'
  return None


def quantize_with(mb, ship_name, rules, stats):
  qt = quantizer.Quantizer(bytearray(mb))
  if ship_name:
    qt.load_quantization_recipe(copy.deepcopy(gr.shipped()[ship_name]))
  else:
    gr.apply_rules(qt, rules)
  return qt.quantize(copy.deepcopy(stats) if qt.need_calibration else None).quantized_model, qt


def main():
  out_path = sys.argv[1]
  tier = os.environ.get('VERIF_TIER', 'quick')
  seed = int(os.environ.get('VERIF_SEED', '0'))
  rng = random.Random(seed * 49979687 + 17)
  t0 = time.time()
  n_models = 2000 if tier == 'thorough' else 150
  viol = []
  dist = collections.Counter()
  nontrivial = set()
  samples = []
  for k in range(n_models):
    one_sided = k % 8 == 3
    tied_unknown = k % 8 == 5
    if tied_unknown:
      # a constant tied between a FULLY_CONNECTED of sig0 and an operator the quantizer does
      # not know (MAXIMUM) of sig1 x a rule for sig0 only: refused (C15), or sig1 is untouched
      mb, info = gg.tied_unknown_model(rng)
      dist['tied_constant_unknown_reader'] += 1
    elif one_sided:
      # constants tied across subgraphs, op chains (runtime tensors that are produced AND
      # read), and a rule that covers ONE subgraph only: refused (C15) or, if accepted,
      # every subgraph must still come out as if it stood alone
      mb, info = gg.gen_model(rng, n_subgraphs=rng.choice([2, 2, 3]), max_ops=rng.choice([3, 4, 5]),
                              op_weights=['FULLY_CONNECTED'] * 5 + ['CONV_2D'] * 2 + ['EMBEDDING_LOOKUP', 'ADD', 'RELU', 'TANH',
                                          'MAXIMUM', 'MAXIMUM', 'MAXIMUM'],   # (MAXIMUM: an op the quantizer does not know, with a constant operand)
                              force_share=True)
      dist['tied_constants_one_sided_rule'] += 1
    else:
      mb, info = gg.gen_model(rng, n_subgraphs=rng.choice([2, 2, 3]), max_ops=rng.choice([3, 5, 8]))
    dup = None
    if k % 8 == 6:
      dup = dup_names(mb, rng)
      if dup is not None:
        mb = dup
        dist['duplicate_names_across_subgraphs'] += 1
    m_in = og.read(mb)
    for trial in range(2):
      ship_name, rules = None, None
      if tied_unknown:
        cname = rng.choice(['drq8', 'wo8', 'wo4']) if info['tie_weight'] else rng.choice(['a8w8', 'a16w8'])
        probe = quantizer.Quantizer(bytearray(mb))
        rules = gr.apply_rules(probe, [('sig0', rng.choice(['*', 'FULLY_CONNECTED']), gr.named_configs()[cname][0], cname)])
        if not rules:
          continue
        desc = rules
      elif one_sided:
        cname = rng.choice(['wo8', 'wo8s', 'wo4', 'drq8', 'drq8t', 'fp16', 'a8w8'])
        probe = quantizer.Quantizer(bytearray(mb))
        rules = gr.apply_rules(probe, [(f'sig{rng.randrange(info["n_subgraphs"])}', rng.choice(['*', 'FULLY_CONNECTED']),
                                        gr.named_configs()[cname][0], cname)])
        if not rules:
          continue
        desc = rules
      elif trial == 0 and rng.random() < 0.5:
        ship_name = rng.choice(gr.DEFAULT_SHIPPED)
        desc = ship_name
      else:
        rules, fam = gr.gen_rules(rng, mb)
        probe = quantizer.Quantizer(bytearray(mb))
        rules = gr.apply_rules(probe, rules)
        if not rules:
          continue
        desc = rules
      stats = gr.own_stats(mb, gg.random_inputs(mb, rng, 1)) if rng.random() < 0.8 else \
          gr.synthetic_stats(mb, rng)
      dist['cases'] += 1
      inp = {'recipe': desc, 'model_hex': mb.hex() if len(mb) < 30000 else None}
      try:
        out_multi, _ = quantize_with(mb, ship_name, rules, stats)
        err_multi = None
      except Exception as e:  # pylint: disable=broad-except
        out_multi, err_multi = None, e
      alone = []
      for i in range(len(m_in.subgraphs)):
        try:
          o, _ = quantize_with(extract(mb, i), ship_name, rules, stats)
          alone.append((o, None))
        except Exception as e:  # pylint: disable=broad-except
          alone.append((None, e))
      if err_multi is not None and dup is not None and isinstance(err_multi, ValueError) and \
          'is not unique in the model' in str(err_multi):
        dist['duplicate_names_refused'] += 1     # the documented input contract
        continue
      if err_multi is not None:
        kind = cg.classify_raise(err_multi, m_in)
        dist['multi_raises:' + kind] += 1
        if kind.startswith('BufferSharing'):
          continue       # constants shared between subgraphs: C15
        if all(e is None for _, e in alone):
          viol.append({'key': 'C19:multi-raises-alone-succeeds', 'what':
                       f'quantize(multi-subgraph model) raises {type(err_multi).__name__}: '
                       f'{str(err_multi)[:160]} although every subgraph alone is quantized', 'input': inp})
        continue
      m_out = og.read(out_multi)
      dist['returned'] += 1
      for i, (o, e) in enumerate(alone):
        if e is not None:
          dist['alone_raises:' + cg.classify_raise(e)] += 1
          viol.append({'key': 'C19:alone-raises-multi-succeeds', 'what':
                       f'subgraph {i} alone raises {type(e).__name__}: {str(e)[:160]} but the multi-subgraph '
                       'model is quantized', 'input': inp})
          continue
        a = canon(m_out, i, i)
        b = canon(og.read(o), 0, 0)
        d = first_diff(a, b)
        dist['subgraphs_compared'] += 1
        if d:
          viol.append({'key': 'C19:subgraph-differs', 'what': f'subgraph {i}: {d}', 'input': inp})
        if len(a['ops']) != len(m_in.subgraphs[i].operators) or any(t[2] != 0 for t in a['tensors']):
          nontrivial.add(json.dumps([a['ops'], [t[:3] for t in a['tensors']]], default=str))
      if len(samples) < 3:
        samples.append({'recipe': desc, 'subgraphs': len(m_in.subgraphs),
                        'ops_out': [len(g.operators) for g in m_out.subgraphs]})
  out = {
      'interface': 'oracle:C19', 'evaluations': dist['cases'],
      'distinct_nontrivial': len(nontrivial), 'n_mismatches': 0, 'mismatches': [],
      'oracle_violations': cg.dedup(viol, 2),
      'violation_counts': dict(collections.Counter(v['key'] for v in viol)),
      'distribution': dict(dist), 'samples': samples, 'wall_s': time.time() - t0,
  }
  with open(out_path, 'w') as f:
    json.dump(out, f, indent=1, default=str)
  print(f'oracle C19: {dist["cases"]} cases, {dist["subgraphs_compared"]} subgraphs compared, violations '
        f'{dict(collections.Counter(v["key"] for v in viol))}, {time.time() - t0:.0f}s')


if __name__ == '__main__':
  main()
