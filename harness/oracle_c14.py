"""Direct oracle for C14 (purity of calibrate / quantize / validate).

(1) caller-owned objects (model bytes, recipe passed in, calibration data,
    previous calibration result, calibration result handed to quantize) are
    deep-compared before / after every API call;
(2) the bytes returned by quantize() for (model, recipe, statistics) are
    compared between a fresh Quantizer and a Quantizer with a random history
    of other recipe / calibrate / quantize / validate calls (and other
    Quantizer objects used in between), the target recipe being re-loaded
    from its exported JSON form;
(3) the same outputs are recomputed in fresh processes under other hash seeds.

argv: out.json | --hash-batch (child mode: prints the sha256 list)"""
import collections
import copy
import hashlib
import json
import os
import random
import subprocess
import sys
import time

sys.path.insert(0, os.path.dirname(os.path.abspath(__file__)))
from absl import logging as _l
_l.set_verbosity(_l.ERROR)

import numpy as np
from ai_edge_quantizer import quantizer
import gen_graph as gg
import gen_recipe as gr
import oracle_graph as og
import corr_graph as cg


def deq(a, b):
  """deep equality incl. numpy arrays (dtype and bits)"""
  if isinstance(a, dict):
    return (isinstance(b, dict) and list(a.keys()) == list(b.keys()) and
            all(deq(a[k], b[k]) for k in a))
  if isinstance(a, (list, tuple)):
    return isinstance(b, type(a)) and len(a) == len(b) and all(deq(x, y) for x, y in zip(a, b))
  if isinstance(a, np.ndarray) or isinstance(b, np.ndarray):
    a, b = np.asarray(a), np.asarray(b)
    return a.dtype == b.dtype and a.shape == b.shape and a.tobytes() == b.tobytes()
  if isinstance(a, (bytes, bytearray)):
    return bytes(a) == bytes(b)
  return a == b and type(a) is type(b)


def sha(b):
  return hashlib.sha256(bytes(b)).hexdigest()


def make_case(rng):
  """(model bytes, recipe as JSON-able list, data) — deterministic in rng"""
  mb, info = gg.gen_model(rng, max_ops=rng.choice([3, 5, 8]))
  qt = quantizer.Quantizer(bytearray(mb))
  if rng.random() < 0.5:
    rec = copy.deepcopy(gr.shipped()[rng.choice(gr.DEFAULT_SHIPPED)])
  else:
    rules, fam = gr.gen_rules(rng, mb)
    if not gr.apply_rules(qt, rules):
      return None
    rec = json.loads(json.dumps(qt.get_quantization_recipe()))
  data = gg.random_inputs(mb, rng, rng.choice([1, 2]))
  return mb, rec, data


def calibrate_all(qt, data, viol, inp, check_mut=True):
  """calibrate signature by signature, chaining the result; returns stats"""
  stats = None
  for key, samples in data.items():
    prev = stats
    prev_copy = copy.deepcopy(prev)
    data_copy = copy.deepcopy(samples)
    stats = qt.calibrate(samples, key, previous_calibration_result=prev)
    if check_mut:
      if not deq(samples, data_copy):
        viol.append({'key': 'C14:calibration-data-mutated', 'what':
                     f'calibrate({key}) modified the calibration data', 'input': inp})
      if prev is not None and not deq(prev, prev_copy):
        viol.append({'key': 'C14:previous-result-mutated', 'what':
                     f'calibrate({key}) modified previous_calibration_result', 'input': inp})
      if prev is not None and stats is prev:
        viol.append({'key': 'C14:previous-result-aliased', 'what':
                     'calibrate() returned the previous_calibration_result object itself', 'input': inp})
  return stats


def target_output(mb, rec, data, viol=None, inp=None):
  """fresh Quantizer: returns (stats, output bytes or exception)"""
  v = viol if viol is not None else []
  model_arg = bytearray(mb)
  rec_arg = copy.deepcopy(rec)
  qt = quantizer.Quantizer(model_arg, rec_arg)
  if not deq(rec_arg, rec):
    v.append({'key': 'C14:recipe-mutated', 'what': 'Quantizer(model, recipe) modified the recipe passed in',
              'input': inp})
  stats = calibrate_all(qt, data, v, inp) if qt.need_calibration else None
  stats_copy = copy.deepcopy(stats)
  try:
    out = qt.quantize(stats).quantized_model
  except Exception as e:  # pylint: disable=broad-except
    out = e
  if stats is not None and not deq(stats, stats_copy):
    v.append({'key': 'C14:stats-mutated', 'what': 'quantize() modified the calibration result passed in',
              'input': inp})
  if bytes(model_arg) != bytes(mb):
    v.append({'key': 'C14:model-bytes-mutated', 'what': 'the model bytearray given to Quantizer was modified',
              'input': inp})
  return stats_copy, out, qt


THR = 'AI_EDGE_QUANTIZER_VERIF_LARGE_MODEL_THRESHOLD'


def hash_batch(seed, n, reverse=False):
  """hashes of n outputs (list in case order).  Every 4th case goes through the
  large-model serialiser (threshold hook).  [reverse] evaluates the cases in the
  opposite order: the bytes must not depend on what the process did before."""
  rng = random.Random(seed * 86028121 + 23)
  cases = []
  while len(cases) < n:
    c = make_case(rng)
    if c is not None:
      cases.append(c)
  hs = [None] * n
  order = list(range(n))
  if reverse:
    order.reverse()
  for i in order:
    mb, rec, data = cases[i]
    if i % 4 == 3:
      os.environ['AI_EDGE_QUANTIZER_VERIF'] = '1'
      os.environ[THR] = '-1'
    try:
      _, out, _ = target_output(mb, rec, data)
    finally:
      os.environ.pop(THR, None)
    hs[i] = 'raise:' + type(out).__name__ if isinstance(out, Exception) else sha(out)
  return hs


def main():
  if sys.argv[1] == '--hash-batch':
    print('HASHES ' + json.dumps(hash_batch(int(sys.argv[2]), int(sys.argv[3]),
                                            reverse=len(sys.argv) > 4 and sys.argv[4] == 'reverse')))
    return
  out_path = sys.argv[1]
  tier = os.environ.get('VERIF_TIER', 'quick')
  seed = int(os.environ.get('VERIF_SEED', '0'))
  t0 = time.time()
  viol = []
  dist = collections.Counter()
  nontrivial = set()
  samples = []
  n_cases = 2000 if tier == 'thorough' else 200
  # ---- (3) fresh processes, other hash seeds: started first, collected last ----
  n_hash = 150 if tier == 'thorough' else 30
  children = []
  for hs in (['1', '2', '3'] if tier == 'thorough' else ['1', '2']):
    env = dict(os.environ, PYTHONHASHSEED=hs)
    children.append((hs, subprocess.Popen(
        [sys.executable, os.path.abspath(__file__), '--hash-batch', str(seed), str(n_hash)] +
        (['reverse'] if hs == '2' else []),       # one child evaluates the batch in the opposite order
        stdout=subprocess.PIPE, stderr=subprocess.DEVNULL, text=True, env=env)))
  # ---- (1) + (2) ----
  rng = random.Random(seed * 67867967 + 29)
  others = []     # other Quantizer objects kept alive and used in between
  k = 0
  while k < n_cases:
    c = make_case(rng)
    if c is None:
      continue
    k += 1
    mb, rec, data = c
    inp = {'recipe': rec if len(json.dumps(rec)) < 3000 else 'long', 'model_hex': mb.hex() if len(mb) < 30000 else None}
    dist['cases'] += 1
    os.environ.pop(THR, None)
    if rng.random() < 0.25:
      os.environ['AI_EDGE_QUANTIZER_VERIF'] = '1'
      os.environ[THR] = '-1'
      dist['large_model_path_histories'] += 1
      inp = dict(inp, large_model_path=True)
    stats, out, qt_fresh = target_output(mb, rec, data, viol, inp)
    ref = 'raise:' + type(out).__name__ if isinstance(out, Exception) else sha(out)
    if not isinstance(out, Exception):
      dist['returned'] += 1
      nontrivial.add(ref)
    # same Quantizer, same call again
    try:
      again = qt_fresh.quantize(copy.deepcopy(stats)).quantized_model
      a2 = sha(again)
    except Exception as e:  # pylint: disable=broad-except
      a2 = 'raise:' + type(e).__name__
    if a2 != ref:
      viol.append({'key': 'C14:history-dependent', 'what':
                   'a second quantize() on the same Quantizer with equal arguments returns different bytes',
                   'input': inp})
    # same Quantizer and recipe, but FIRST quantized with OTHER statistics
    if stats is not None and not isinstance(out, Exception):
      qx = quantizer.Quantizer(bytearray(mb), copy.deepcopy(rec))
      try:
        st_other = calibrate_all(qx, gg.random_inputs(mb, rng, 1, scale=3.0), viol, inp, check_mut=False)
        qx.quantize(st_other)
        a3 = sha(qx.quantize(copy.deepcopy(stats)).quantized_model)
      except Exception as e:  # pylint: disable=broad-except
        a3 = 'raise:' + type(e).__name__
      dist['requantize_with_other_statistics'] += 1
      if a3 != ref:
        viol.append({'key': 'C14:history-dependent', 'what':
                     'quantize(statistics B) on a Quantizer that has already quantized with statistics A '
                     'differs from a fresh Quantizer given statistics B', 'input': inp})
    # dirty Quantizer: random history, then the target recipe
    qd = quantizer.Quantizer(bytearray(mb))
    hist = []
    for step in range(rng.randint(1, 4)):
      kind = rng.choice(['rules', 'ship', 'calib', 'quant', 'validate', 'other'])
      hist.append(kind)
      try:
        if kind == 'rules':
          rules, _ = gr.gen_rules(rng, mb)
          gr.apply_rules(qd, rules)
        elif kind == 'ship':
          qd.load_quantization_recipe(copy.deepcopy(gr.shipped()[rng.choice(gr.DEFAULT_SHIPPED)]))
        elif kind == 'calib' and qd.need_calibration:
          calibrate_all(qd, gg.random_inputs(mb, rng, 1), viol, inp, check_mut=False)
        elif kind == 'quant' and qd.get_quantization_recipe():
          st = calibrate_all(qd, gg.random_inputs(mb, rng, 1), viol, inp, check_mut=False) \
              if qd.need_calibration else None
          qd.quantize(st)
        elif kind == 'validate' and qd._result.quantized_model is not None:  # pylint: disable=protected-access
          td = gg.random_inputs(mb, rng, 1)
          td_copy = copy.deepcopy(td)
          qd.validate(td)
          if not deq(td, td_copy):
            viol.append({'key': 'C14:test-data-mutated', 'what': 'validate() modified the test data',
                         'input': inp})
        elif kind == 'other':
          mb2, _ = gg.gen_model(rng, max_ops=4)
          q2 = quantizer.Quantizer(bytearray(mb2), copy.deepcopy(
              gr.shipped()[rng.choice(['default_af32w8float_recipe', 'dynamic_wi8_afp32_recipe'])]))
          q2.quantize()
          others.append(q2)
          others[:] = others[-3:]
      except Exception:  # pylint: disable=broad-except
        pass
    qd.load_quantization_recipe(json.loads(json.dumps(rec)))
    try:
      o2 = sha(qd.quantize(copy.deepcopy(stats)).quantized_model)
    except Exception as e:  # pylint: disable=broad-except
      o2 = 'raise:' + type(e).__name__
    if o2 != ref:
      viol.append({'key': 'C14:history-dependent', 'what':
                   f'quantize() after the history {hist} + load(target recipe) returns {o2[:16]} but a fresh '
                   f'Quantizer returns {ref[:16]} for equal (model, recipe, statistics)', 'input': inp})
    # recipe EDITED after use (no load in between): rules, a calibrate / quantize,
    # then an operation-specific rule entered under a regex the recipe already
    # holds; the result must equal a fresh Quantizer given the exported recipe
    qu = quantizer.Quantizer(bytearray(mb))
    try:
      qu.load_quantization_recipe(json.loads(json.dumps(rec)))
      st0 = calibrate_all(qu, gg.random_inputs(mb, rng, 1), viol, inp, check_mut=False) \
          if qu.need_calibration else None
      if rng.random() < 0.7:
        qu.quantize(st0)
      regexes = [r['regex'] for r in qu.get_quantization_recipe()]
      keys = sorted(set(k_ for k_, _ in gr.model_scopes(mb) if k_))
      ncfg = gr.named_configs()
      edits = []
      for _ in range(rng.randint(1, 2)):
        if not regexes or not keys:
          break
        cn = rng.choice(gr.STATIC + gr.FLOATC + ['nq'])
        edits.append((rng.choice(regexes), rng.choice(keys), ncfg[cn][0], cn))
      acc = gr.apply_rules(qu, edits)
    except Exception:  # pylint: disable=broad-except
      acc = []
    if acc:
      rec_u = json.loads(json.dumps(qu.get_quantization_recipe()))
      stats_u, out_u, _ = target_output(mb, rec_u, data, None, inp)
      ref_u = 'raise:' + type(out_u).__name__ if isinstance(out_u, Exception) else sha(out_u)
      try:
        o3 = sha(qu.quantize(copy.deepcopy(stats_u)).quantized_model)
      except Exception as e:  # pylint: disable=broad-except
        o3 = 'raise:' + type(e).__name__
      dist['recipe_edited_after_use'] += 1
      if o3 != ref_u:
        viol.append({'key': 'C14:history-dependent', 'what':
                     f'quantize() after load(recipe), calibrate/quantize and the rule edits {acc} returns {o3[:16]} '
                     f'but a fresh Quantizer given the exported recipe returns {ref_u[:16]}',
                     'input': dict(inp, edits=[list(a) for a in acc])})
    if len(samples) < 3:
      samples.append({'history': hist, 'sha256': ref[:16], 'n_rules': len(rec)})
  os.environ.pop(THR, None)
  # the reference batch of THIS process is computed AFTER all the histories above
  # (the children compute theirs first thing in a fresh process)
  ref_hashes = hash_batch(seed, n_hash)
  dist['hash_batch_large_model_path'] = len([i for i in range(n_hash) if i % 4 == 3])
  # ---- collect children ----
  for hs, p in children:
    try:
      so, _ = p.communicate(timeout=900)
      line = [l for l in so.split('\n') if l.startswith('HASHES ')]
      got = json.loads(line[0][7:]) if line else None
    except Exception:  # pylint: disable=broad-except
      p.kill()
      got = None
    dist['fresh_process_runs'] += 1
    if got is None:
      viol.append({'key': 'HARNESS:child-failed', 'what': f'hash batch child (PYTHONHASHSEED={hs}) failed'})
    elif got != ref_hashes:
      bad = [i for i, (x, y) in enumerate(zip(got, ref_hashes)) if x != y]
      viol.append({'key': 'C14:process-or-hash-seed-dependent', 'what':
                   f'quantize() output differs between this process and a fresh process with '
                   f'PYTHONHASHSEED={hs} on batch cases {bad[:5]}', 'input': {'seed': seed}})
  harness_err = [v for v in viol if v['key'].startswith('HARNESS')]
  out = {
      'interface': 'oracle:C14', 'evaluations': dist['cases'] + len(ref_hashes) * (1 + len(children)),
      'distinct_nontrivial': len(nontrivial), 'n_mismatches': len(harness_err), 'mismatches': harness_err[:3],
      'oracle_violations': cg.dedup([v for v in viol if not v['key'].startswith('HARNESS')], 2),
      'violation_counts': dict(collections.Counter(v['key'] for v in viol)),
      'distribution': dict(dist), 'samples': samples, 'hash_batch': len(ref_hashes),
      'wall_s': time.time() - t0,
  }
  with open(out_path, 'w') as f:
    json.dump(out, f, indent=1, default=str)
  print(f'oracle C14: {dist["cases"]} histories, {len(ref_hashes)} outputs x {len(children)} fresh processes, '
        f'violations {dict(collections.Counter(v["key"] for v in viol))}, {time.time() - t0:.0f}s')


if __name__ == '__main__':
  main()
