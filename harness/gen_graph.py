"""Generator of float .tflite models in converter normal form, built directly
with the flatbuffer object API (no TF converter).  All random choices come
from the rng handed in.  Every generated model is runnable by the LiteRT
interpreter (shape-consistent)."""
import numpy as np

from ai_edge_litert import schema_py_generated as S
from tensorflow.lite.tools import flatbuffer_utils as FU

B = S.BuiltinOperator
FLOAT32, INT32 = S.TensorType.FLOAT32, S.TensorType.INT32

SUPPORTED = ['FULLY_CONNECTED', 'BATCH_MATMUL', 'CONV_2D', 'DEPTHWISE_CONV_2D',
             'TRANSPOSE_CONV', 'AVERAGE_POOL_2D', 'RESHAPE', 'EMBEDDING_LOOKUP',
             'SOFTMAX', 'TANH', 'TRANSPOSE', 'GELU', 'ADD', 'SUB', 'MUL', 'MEAN',
             'RSQRT', 'CONCATENATION', 'STRIDED_SLICE', 'SPLIT', 'LOGISTIC']
UNSUPPORTED = ['RELU', 'NEG', 'ABS', 'MAX_POOL_2D', 'EXP', 'RNN', 'MAXIMUM']
# a signature may return one tensor twice (same tensor index listed twice in subgraph.outputs)
DUPLICATE_OUTPUTS = True
DUP_PROB = 0.06
# RSQRT normally reads a positive tensor; a check may allow any operand (NaN in the float model)
RSQRT_ANY = False
STATEFUL_ANYWHERE = False
# probability that a BATCH_MATMUL constant right-hand side is square (both axes = channel count)
BMM_SQUARE_PROB = 0.35
# probability that all subgraphs of a multi-subgraph model carry the same (or no) name
SAME_SG_NAME_PROB = 0.3
# probability that a float CONSTANT (e.g. a weight) is also exported as a graph output
CONST_OUTPUT_PROB = 0.0
# probability that a graph INPUT is also returned as a graph output (passthrough)
PASSTHROUGH_PROB = 0.08
# probability that the tensor table of a subgraph is NOT in creation order
TENSOR_ORDER_SHUFFLE_PROB = 0.3
# probability that a multi-signature model lists its signatures in another order than its subgraphs
SIG_ORDER_SHUFFLE_PROB = 0.4
# value distribution of generated float constants (a check may narrow it)
CONST_KINDS = ['normal'] * 6 + ['pos', 'neg', 'tiny', 'big', 'zero']


class ModelBuilder:

  def __init__(self, rng, name_style=0):
    self.rng = rng
    self.m = S.ModelT()
    self.m.version = 3
    self.m.description = b'verif generated'
    self.m.buffers = [S.BufferT()]      # buffer 0: empty sentinel
    self.m.operatorCodes = []
    self.m.subgraphs = []
    self.m.signatureDefs = []
    self.names = set()
    self.name_style = name_style

  def opcode(self, code):
    for i, c in enumerate(self.m.operatorCodes):
      if c.builtinCode == code:
        return i
    c = S.OperatorCodeT()
    c.builtinCode = code
    c.deprecatedBuiltinCode = min(code, 127)
    c.version = 1
    self.m.operatorCodes.append(c)
    return len(self.m.operatorCodes) - 1

  def new_buffer(self, data=None):
    b = S.BufferT()
    if data is not None:
      b.data = np.frombuffer(data.tobytes(), dtype=np.uint8)
    self.m.buffers.append(b)
    return len(self.m.buffers) - 1

  def uniq(self, base):
    n = base
    k = 0
    while n in self.names:
      k += 1
      n = f'{base}_{k}'
    self.names.add(n)
    return n

  def finish(self):
    return bytes(FU.convert_object_to_bytearray(self.m))


class GraphBuilder:

  def __init__(self, mb, sg_index, key):
    self.mb = mb
    self.rng = mb.rng
    self.g = S.SubGraphT()
    self.g.name = key.encode()
    self.g.tensors = []
    self.g.operators = []
    self.g.inputs = []
    self.g.outputs = []
    self.key = key
    self.idx = sg_index
    self.acts = []        # (tensor id, shape tuple, flags)
    self.consts = []      # float constant tensor ids (for sharing)
    self.nops = 0
    self.pin = None       # while set, every operand pick that it satisfies returns this activation

  # ---- tensors ----
  def tensor(self, name, shape, ttype=FLOAT32, data=None, buffer=None):
    t = S.TensorT()
    t.name = self.mb.uniq(name).encode()
    t.shape = np.array(shape, dtype=np.int32)
    t.type = ttype
    t.buffer = self.mb.new_buffer(data) if buffer is None else buffer
    self.g.tensors.append(t)
    return len(self.g.tensors) - 1

  def act(self, name, shape, pos=False):
    tid = self.tensor(name, shape)
    self.acts.append((tid, tuple(shape), {'pos': pos}))
    return tid

  def fconst(self, name, shape, kind=None, share_of=None):
    rng = self.rng
    if share_of is not None:   # a second tensor on an existing buffer
      src = self.g.tensors[share_of]
      return self.tensor(name, list(src.shape), FLOAT32, buffer=src.buffer)
    kind = kind or rng.choice(CONST_KINDS)
    n = int(np.prod(shape)) if len(shape) else 1
    vals = np.array([rng.gauss(0, 1) for _ in range(n)], dtype=np.float32)
    if kind == 'pos':
      vals = np.abs(vals) + 0.1
    elif kind == 'neg':
      vals = -np.abs(vals) - 0.1
    elif kind == 'tiny':
      vals = vals * 1e-6
    elif kind == 'big':
      vals = vals * 1e4
    elif kind == 'zero':
      vals = vals * 0
    elif kind in ('zp0_8', 'zp0_4'):
      # asymmetric range whose real-valued zero point lies just above an integer that is 0:
      # (qmin - min/scale) = 0.25, so the zero point rounds to 0 although the range is NOT
      # symmetric; the minimum element is the code qmin exactly
      levels, qmin = (255, 128) if kind == 'zp0_8' else (15, 8)
      step = float(rng.choice([0.01, 0.003, 0.05]))
      lo, hi = -(qmin + 0.25) * step, (levels - qmin - 0.25) * step
      vals = np.array([rng.uniform(lo, hi) for _ in range(n)], dtype=np.float32)
      for i in range(n):
        r_ = rng.random()
        if r_ < 0.3:
          vals[i] = lo
        elif r_ < 0.6:
          vals[i] = hi
      if n >= 2:
        vals[0], vals[-1] = lo, hi
    elif kind == 'huge':     # around and beyond the float16 range (max 65504; 65520 rounds to inf)
      vals = vals * 1e5
      edge = [65504.0, 65519.0, 65520.0, -65520.0, 7e4, -3e7, 6.1e-5, 5.9e-8, 2.9e-8]
      for i in range(min(n, 3)):
        vals[rng.randrange(n)] = rng.choice(edge)
    tid = self.tensor(name, shape, FLOAT32, vals.reshape(shape))
    self.consts.append(tid)
    return tid

  def iconst(self, name, values):
    arr = np.array(values, dtype=np.int32)
    return self.tensor(name, list(arr.shape), INT32, arr)

  def op(self, code, inputs, outputs, opts_type=0, opts=None):
    o = S.OperatorT()
    o.opcodeIndex = self.mb.opcode(code)
    o.inputs = np.array(inputs, dtype=np.int32)
    o.outputs = np.array(outputs, dtype=np.int32)
    o.builtinOptionsType = opts_type
    o.builtinOptions = opts
    self.g.operators.append(o)
    self.nops += 1

  def oname(self, kind, suffix='out'):
    st = self.mb.name_style
    k = self.nops
    if st == 0:
      return f'{self.key}/{kind.lower()}_{k}/{suffix}'
    if st == 1:
      return f'{self.key}/{kind.lower()}_{k};{self.key}/{suffix}{k}'
    return f'{self.key}_{kind}_{k}:0'

  # ---- picking operands ----
  def pick(self, pred=lambda s, f: True, prefer_recent=True):
    c = [(t, s, f) for (t, s, f) in self.acts if pred(s, f)]
    if not c:
      return None
    if self.pin is not None and pred(self.pin[1], self.pin[2]):
      return self.pin
    if prefer_recent and self.rng.random() < 0.6:
      return c[-1 - self.rng.randrange(min(2, len(c)))]
    return self.rng.choice(c)

  # ---- ops ----
  def add_op(self, kind):
    rng = self.rng
    r2 = lambda s, f: len(s) == 2
    r4 = lambda s, f: len(s) == 4
    if kind in ('SOFTMAX', 'TANH', 'LOGISTIC', 'GELU', 'RELU', 'NEG', 'ABS',
                'EXP'):
      x = self.pick(r2 if kind == 'SOFTMAX' else (lambda s, f: True))
      if x is None:
        return False
      out = self.act(self.oname(kind), x[1], pos=kind in ('SOFTMAX', 'LOGISTIC'))
      opts = {
          'SOFTMAX': (S.BuiltinOptions.SoftmaxOptions, self._mk(S.SoftmaxOptionsT, beta=1.0)),
          'GELU': (S.BuiltinOptions.GeluOptions, self._mk(S.GeluOptionsT, approximate=False)),
      }.get(kind, (0, None))
      self.op(getattr(B, kind), [x[0]], [out], *opts)
      return True
    if kind == 'RSQRT':
      x = self.pick((lambda s, f: True) if RSQRT_ANY else (lambda s, f: f['pos']))
      if x is None:
        return False
      out = self.act(self.oname(kind), x[1], pos=True)
      self.op(B.RSQRT, [x[0]], [out])
      return True
    if kind == 'MAXIMUM':
      # an op the quantizer does not know WITH a constant operand; a second
      # MAXIMUM often reuses the same constant tensor (as the converter does
      # when it merges identical constants): a constant read only by unknown ops
      x = self.pick(r2)
      if x is None:
        return False
      prev = [c for c in getattr(self, 'max_consts', []) if c[1] == x[1][1]]
      if prev and rng.random() < 0.6:
        c = prev[-1][0]
      else:
        c = self.fconst(self.oname(kind, 'floor'), [x[1][1]], kind='normal')
        self.max_consts = getattr(self, 'max_consts', []) + [(c, x[1][1])]
      out = self.act(self.oname(kind), x[1])
      self.op(B.MAXIMUM, [x[0], c], [out], S.BuiltinOptions.MaximumMinimumOptions,
              S.MaximumMinimumOptionsT())
      return True
    if kind == 'RNN':
      if self.idx != 0 and not STATEFUL_ANYWHERE:
        return False      # F22: calibrate() of another signature would crash in reset_all_variables
      # a STATEFUL float op the quantizer does not know: the hidden state lives
      # in a variable tensor (buffer 0, isVariable) that persists across invokes
      x = self.pick(r2)
      if x is None:
        return False
      units = rng.choice([2, 3, 4])
      w = self.fconst(self.oname(kind, 'w'), [units, x[1][1]], kind='normal')
      rw = self.fconst(self.oname(kind, 'rw'), [units, units], kind='normal')
      b = self.fconst(self.oname(kind, 'b'), [units], kind='normal')
      st = self.tensor(self.oname(kind, 'state'), [x[1][0], units], FLOAT32, buffer=0)
      self.g.tensors[st].isVariable = True
      out = self.act(self.oname(kind), (x[1][0], units))
      self.op(B.RNN, [x[0], w, rw, b, st], [out], S.BuiltinOptions.RNNOptions,
              self._mk(S.RNNOptionsT, fusedActivationFunction=S.ActivationFunctionType.TANH))
      return True
    if kind in ('ADD', 'SUB', 'MUL'):
      x = self.pick()
      if x is None:
        return False
      r = rng.random()
      if r < 0.25:
        y = x                                        # repeated operand x (op) x
      elif r < 0.5:
        cshape = list(x[1]) if rng.random() < 0.5 else [x[1][-1]]
        y = (self.fconst(self.oname(kind, 'y'), cshape), x[1], {})
      else:
        y = self.pick(lambda s, f: s == x[1], prefer_recent=False) or x
      out = self.act(self.oname(kind), x[1])
      ot = {'ADD': (S.BuiltinOptions.AddOptions, S.AddOptionsT),
            'SUB': (S.BuiltinOptions.SubOptions, S.SubOptionsT),
            'MUL': (S.BuiltinOptions.MulOptions, S.MulOptionsT)}[kind]
      ins = [x[0], y[0]]
      if rng.random() < 0.3:
        ins.reverse()
      self.op(getattr(B, kind), ins, [out], ot[0], self._mk(ot[1], fusedActivationFunction=0))
      return True
    if kind == 'FULLY_CONNECTED':
      x = self.pick(r2)
      if x is None:
        return False
      m = rng.choice([2, 3, 4, 5, 6])
      share = None
      if self.consts and rng.random() < 0.25:
        cands = [c for c in self.consts
                 if tuple(self.g.tensors[c].shape) == (m, x[1][1])]
        if cands:
          share = rng.choice(cands)
      if share is not None and rng.random() < 0.5:
        w = share                                      # same constant tensor, several consumers
      else:
        w = self.fconst(self.oname(kind, 'w'), [m, x[1][1]], share_of=share)
      bias = -1 if rng.random() < 0.35 else self.fconst(self.oname(kind, 'b'), [m])
      out = self.act(self.oname(kind), (x[1][0], m))
      self.op(B.FULLY_CONNECTED, [x[0], w, bias], [out],
              S.BuiltinOptions.FullyConnectedOptions,
              self._mk(S.FullyConnectedOptionsT,
                       fusedActivationFunction=rng.choice([0, 0, 1]),
                       keepNumDims=False, weightsFormat=0))
      return True
    if kind == 'BATCH_MATMUL':
      x = self.pick(r2)
      if x is None:
        return False
      m = rng.choice([2, 3, 4])
      if rng.random() < BMM_SQUARE_PROB:
        m = x[1][1]          # SQUARE right-hand side: both axes have the channel count
      adjy = rng.random() < 0.4
      if rng.random() < 0.8:
        yshape = [m, x[1][1]] if adjy else [x[1][1], m]
        y = self.fconst(self.oname(kind, 'y'), yshape)
      else:
        other = self.pick(lambda s, f: len(s) == 2 and s[1] == x[1][1],
                          prefer_recent=False)
        if other is None:
          return False
        y, adjy, m = other[0], True, other[1][0]
      out = self.act(self.oname(kind), (x[1][0], m))
      self.op(B.BATCH_MATMUL, [x[0], y], [out], S.BuiltinOptions.BatchMatMulOptions,
              self._mk(S.BatchMatMulOptionsT, adjX=False, adjY=adjy,
                       asymmetricQuantizeInputs=False))
      return True
    if kind in ('CONV_2D', 'DEPTHWISE_CONV_2D'):
      x = self.pick(r4)
      if x is None:
        return False
      b, h, w_, c = x[1]
      kh = rng.choice([1, 2, 3])
      if kind == 'CONV_2D':
        o = rng.choice([2, 3, 4])
        f = self.fconst(self.oname(kind, 'f'), [o, kh, kh, c])
        opts = (S.BuiltinOptions.Conv2DOptions,
                self._mk(S.Conv2DOptionsT, padding=0, strideW=1, strideH=1,
                         dilationWFactor=1, dilationHFactor=1,
                         fusedActivationFunction=rng.choice([0, 1])))
      else:
        o = c
        f = self.fconst(self.oname(kind, 'f'), [1, kh, kh, c])
        opts = (S.BuiltinOptions.DepthwiseConv2DOptions,
                self._mk(S.DepthwiseConv2DOptionsT, padding=0, strideW=1,
                         strideH=1, depthMultiplier=1, dilationWFactor=1,
                         dilationHFactor=1, fusedActivationFunction=0))
      bias = self.fconst(self.oname(kind, 'b'), [o])
      out = self.act(self.oname(kind), (b, h, w_, o))
      self.op(getattr(B, kind), [x[0], f, bias], [out], *opts)
      return True
    if kind == 'TRANSPOSE_CONV':
      x = self.pick(r4)
      if x is None:
        return False
      b, h, w_, c = x[1]
      o = rng.choice([2, 3])
      oshape = self.iconst(self.oname(kind, 'shape'), [b, h, w_, o])
      f = self.fconst(self.oname(kind, 'f'), [o, 2, 2, c])
      ins = [oshape, f, x[0]]
      if rng.random() < 0.6:
        ins.append(self.fconst(self.oname(kind, 'b'), [o]))
      out = self.act(self.oname(kind), (b, h, w_, o))
      self.op(B.TRANSPOSE_CONV, ins, [out], S.BuiltinOptions.TransposeConvOptions,
              self._mk(S.TransposeConvOptionsT, padding=0, strideW=1, strideH=1,
                       fusedActivationFunction=0))
      return True
    if kind in ('AVERAGE_POOL_2D', 'MAX_POOL_2D'):
      x = self.pick(r4)
      if x is None:
        return False
      out = self.act(self.oname(kind), x[1])
      self.op(getattr(B, kind), [x[0]], [out], S.BuiltinOptions.Pool2DOptions,
              self._mk(S.Pool2DOptionsT, padding=0, strideW=1, strideH=1,
                       filterWidth=2, filterHeight=2, fusedActivationFunction=0))
      return True
    if kind == 'RESHAPE':
      x = self.pick()
      if x is None:
        return False
      s = x[1]
      if len(s) == 4:
        new = (s[0], s[1] * s[2] * s[3])
      elif s[1] % 4 == 0 and rng.random() < 0.5:
        new = (s[0], 2, 2, s[1] // 4)
      elif s[1] % 2 == 0:
        new = (s[0] * 2, s[1] // 2)
      else:
        new = (s[1], s[0])
      sh = self.iconst(self.oname(kind, 'shape'), list(new))
      out = self.act(self.oname(kind), new, pos=x[2]['pos'])
      self.op(B.RESHAPE, [x[0], sh], [out], S.BuiltinOptions.ReshapeOptions,
              self._mk(S.ReshapeOptionsT, newShape=list(new)))
      return True
    if kind == 'TRANSPOSE':
      x = self.pick(r2)
      if x is None:
        return False
      perm = self.iconst(self.oname(kind, 'perm'), [1, 0])
      out = self.act(self.oname(kind), (x[1][1], x[1][0]), pos=x[2]['pos'])
      self.op(B.TRANSPOSE, [x[0], perm], [out], S.BuiltinOptions.TransposeOptions,
              S.TransposeOptionsT())
      return True
    if kind == 'MEAN':
      x = self.pick(r2)
      if x is None:
        return False
      axis = self.iconst(self.oname(kind, 'axis'), [1])
      out = self.act(self.oname(kind), (x[1][0], 1))
      self.op(B.MEAN, [x[0], axis], [out], S.BuiltinOptions.ReducerOptions,
              self._mk(S.ReducerOptionsT, keepDims=True))
      return True
    if kind == 'CONCATENATION':
      x = self.pick(r2)
      if x is None:
        return False
      others = [a for a in self.acts if len(a[1]) == 2 and a[1][0] == x[1][0]]
      k = rng.choice([2, 2, 3])
      parts = [x] + [rng.choice(others) for _ in range(k - 1)]
      if rng.random() < 0.2:
        parts[1] = x                                  # concat(x, x)
      n = sum(p[1][1] for p in parts)
      out = self.act(self.oname(kind), (x[1][0], n))
      self.op(B.CONCATENATION, [p[0] for p in parts], [out],
              S.BuiltinOptions.ConcatenationOptions,
              self._mk(S.ConcatenationOptionsT, axis=1, fusedActivationFunction=0))
      return True
    if kind == 'STRIDED_SLICE':
      x = self.pick(lambda s, f: len(s) == 2 and s[1] >= 2)
      if x is None:
        return False
      n2 = rng.randrange(1, x[1][1])
      bg = self.iconst(self.oname(kind, 'begin'), [0, 0])
      en = self.iconst(self.oname(kind, 'end'), [x[1][0], n2])
      st = self.iconst(self.oname(kind, 'strides'), [1, 1])
      out = self.act(self.oname(kind), (x[1][0], n2), pos=x[2]['pos'])
      self.op(B.STRIDED_SLICE, [x[0], bg, en, st], [out],
              S.BuiltinOptions.StridedSliceOptions,
              self._mk(S.StridedSliceOptionsT, beginMask=0, endMask=0,
                       ellipsisMask=0, newAxisMask=0, shrinkAxisMask=0, offset=False))
      return True
    if kind == 'SPLIT':
      x = self.pick(lambda s, f: len(s) == 2 and s[1] % 2 == 0)
      if x is None:
        return False
      dim = self.tensor(self.oname(kind, 'dim'), [], INT32, np.array(1, dtype=np.int32))
      o1 = self.act(self.oname(kind, 'out0'), (x[1][0], x[1][1] // 2), pos=x[2]['pos'])
      o2 = self.act(self.oname(kind, 'out1'), (x[1][0], x[1][1] // 2), pos=x[2]['pos'])
      self.op(B.SPLIT, [dim, x[0]], [o1, o2], S.BuiltinOptions.SplitOptions,
              self._mk(S.SplitOptionsT, numSplits=2))
      return True
    if kind == 'EMBEDDING_LOOKUP':
      v, n = rng.choice([4, 5]), rng.choice([2, 4, 6])
      k = rng.choice([1, 2, 3])
      ids = self.iconst(self.oname(kind, 'ids'), [rng.randrange(v) for _ in range(k)])
      share = None
      fcw = [c for c in self.consts if len(self.g.tensors[c].shape) == 2]
      if fcw and rng.random() < 0.4:
        table = rng.choice(fcw)                       # table shared with an FC weight
        v, n = [int(d) for d in self.g.tensors[table].shape]
        self.g.tensors[ids].shape = np.array([1], dtype=np.int32)
        self.mb.m.buffers[self.g.tensors[ids].buffer].data = np.frombuffer(
            np.array([0], dtype=np.int32).tobytes(), dtype=np.uint8)
        k = 1
      else:
        table = self.fconst(self.oname(kind, 'table'), [v, n])
      out = self.act(self.oname(kind), (k, n))
      self.op(B.EMBEDDING_LOOKUP, [ids, table], [out])
      return True
    raise ValueError(kind)

  @staticmethod
  def _mk(cls, **kw):
    o = cls()
    for k, v in kw.items():
      if not hasattr(o, k):
        raise AttributeError(f'{cls.__name__}.{k}')
      setattr(o, k, v)
    return o


FAN_KINDS = ['FULLY_CONNECTED', 'FULLY_CONNECTED', 'TANH', 'LOGISTIC', 'MUL', 'ADD', 'SOFTMAX',
             'BATCH_MATMUL', 'RESHAPE', 'MEAN']


def gen_subgraph(mb, sg_index, key, n_ops, op_weights=None, want4d=None, fanout=0):
  rng = mb.rng
  gb = GraphBuilder(mb, sg_index, key)
  bsz = rng.choice([1, 2])
  n = rng.choice([4, 6, 8])
  n_in = rng.choice([1, 1, 2, 3])
  if want4d is None:
    want4d = rng.random() < 0.35
  for i in range(n_in):
    if want4d and i == 0:
      shp = (bsz, rng.choice([3, 4]), rng.choice([3, 4]), rng.choice([2, 3]))
    else:
      shp = (bsz, n)
    tid = gb.act(f'{key}_input_{i}' + (':0' if mb.name_style == 2 else ''), shp)
    gb.g.inputs.append(tid)
  kinds = SUPPORTED * 3 + UNSUPPORTED
  if op_weights:
    kinds = op_weights
  if fanout:
    # FAN-OUT: the first input is read by `fanout` supported ops (directed: a
    # tensor that needs several different representations at once)
    gb.pin = gb.acts[0]
    tries = 0
    while gb.nops < fanout and tries < fanout * 8:
      tries += 1
      gb.add_op(rng.choice(FAN_KINDS))
    gb.pin = None
    n_ops += gb.nops
  tries = 0
  while gb.nops < n_ops and tries < n_ops * 8:
    tries += 1
    gb.add_op(rng.choice(kinds))
  if gb.nops == 0:
    gb.add_op('TANH')
  produced = [a for a in gb.acts if a[0] not in gb.g.inputs]
  consumed = set(int(i) for o in gb.g.operators for i in o.inputs)
  outs = [a[0] for a in produced if a[0] not in consumed]   # dangling -> outputs
  extra = [a[0] for a in produced if a[0] in consumed]
  rng.shuffle(extra)
  outs += extra[:rng.choice([0, 0, 1, 1, 2])]               # exported AND consumed
  if not outs:
    outs = [produced[-1][0]]
  rng.shuffle(outs)
  if PASSTHROUGH_PROB and rng.random() < PASSTHROUGH_PROB:
    outs.append(int(gb.g.inputs[0]))        # the model also returns one of its inputs
  if CONST_OUTPUT_PROB and gb.consts and rng.random() < CONST_OUTPUT_PROB:
    outs.append(rng.choice(gb.consts))      # a model that also returns one of its weights
  if DUPLICATE_OUTPUTS and rng.random() < DUP_PROB:
    outs.append(rng.choice(outs))      # one tensor returned under two output names
  gb.g.outputs = outs
  if rng.random() < TENSOR_ORDER_SHUFFLE_PROB:
    # the tensor table need not be in creation order (converters list constants
    # after activations, etc.): renumber every tensor consistently
    n = len(gb.g.tensors)
    perm = list(range(n))
    rng.shuffle(perm)                         # old index -> new index
    newt = [None] * n
    for old, new in enumerate(perm):
      newt[new] = gb.g.tensors[old]
    gb.g.tensors = newt
    mp = lambda x: int(x) if int(x) == -1 else perm[int(x)]
    for o in gb.g.operators:
      o.inputs = np.array([mp(x) for x in o.inputs], dtype=np.int32)
      o.outputs = np.array([mp(x) for x in o.outputs], dtype=np.int32)
    gb.g.inputs = [mp(x) for x in gb.g.inputs]
    gb.g.outputs = [mp(x) for x in gb.g.outputs]
    gb.acts = [(mp(t), s_, f) for (t, s_, f) in gb.acts]
    gb.consts = [mp(c) for c in gb.consts]
    if hasattr(gb, 'max_consts'):
      gb.max_consts = [(mp(c), d) for (c, d) in gb.max_consts]
  gb.g.inputs = np.array(gb.g.inputs, dtype=np.int32)
  gb.g.outputs = np.array(gb.g.outputs, dtype=np.int32)
  mb.m.subgraphs.append(gb.g)
  sd = S.SignatureDefT()
  sd.signatureKey = key.encode()
  sd.subgraphIndex = sg_index
  sd.inputs, sd.outputs = [], []
  for j, t in enumerate(gb.g.inputs):
    tm = S.TensorMapT()
    tm.name = f'arg{j}'.encode()
    tm.tensorIndex = int(t)
    sd.inputs.append(tm)
  for j, t in enumerate(gb.g.outputs):
    tm = S.TensorMapT()
    tm.name = f'out{j}'.encode()
    tm.tensorIndex = int(t)
    sd.outputs.append(tm)
  mb.m.signatureDefs.append(sd)
  return gb


def gen_model(rng, n_subgraphs=None, max_ops=8, op_weights=None, force_share=False, fanout=0):
  """Returns (model bytes, info dict)."""
  mb = ModelBuilder(rng, name_style=rng.choice([0, 0, 1, 2]))
  if n_subgraphs is None:
    n_subgraphs = rng.choice([1, 1, 1, 1, 2, 3])
  gbs = []
  for i in range(n_subgraphs):
    key = 'serving_default' if n_subgraphs == 1 else f'sig{i}'
    gbs.append(gen_subgraph(mb, i, key, rng.randint(1, max_ops), op_weights,
                            want4d=False if fanout else None, fanout=fanout if i == 0 else 0))
  # constants shared across subgraphs: retarget a const of subgraph j>0 to a
  # same-shaped buffer of subgraph 0
  if n_subgraphs > 1 and (force_share or rng.random() < 0.5):
    g0 = gbs[0]
    for gb in gbs[1:]:
      for c in gb.consts:
        tc = gb.g.tensors[c]
        m = [d for d in g0.consts
             if tuple(g0.g.tensors[d].shape) == tuple(tc.shape)]
        if m:
          tc.buffer = g0.g.tensors[rng.choice(m)].buffer
          break
  # subgraph NAMES need not be unique (models assembled from single-signature
  # models are all called 'main'; object-API models often have no name)
  r = rng.random()
  if n_subgraphs > 1 and r < SAME_SG_NAME_PROB:
    for gb in gbs:
      gb.g.name = b'main' if r < SAME_SG_NAME_PROB * 0.7 else None
  # the ORDER of the signature list need not follow the order of the subgraphs
  # (signature i points at subgraph signatureDefs[i].subgraphIndex, not at subgraph i)
  if n_subgraphs > 1 and rng.random() < SIG_ORDER_SHUFFLE_PROB and mb.m.signatureDefs:
    rng.shuffle(mb.m.signatureDefs)
  return mb.finish(), {'n_subgraphs': n_subgraphs,
                       'ops': [g.nops for g in gbs]}


def random_inputs(model_bytes, rng, n_samples=1, scale=1.0):
  """{signature key: [ {arg name: array}, ... ]}"""
  m = FU.read_model_from_bytearray(bytearray(model_bytes))
  out = {}
  for sd in m.signatureDefs:
    g = m.subgraphs[sd.subgraphIndex]
    samples = []
    for _ in range(n_samples):
      d = {}
      for tm in sd.inputs:
        t = g.tensors[tm.tensorIndex]
        shape = [int(x) for x in t.shape]
        nelem = int(np.prod(shape)) if shape else 1
        if t.type == FLOAT32:
          arr = np.array([rng.gauss(0, scale) for _ in range(nelem)],
                         dtype=np.float32).reshape(shape)
        else:
          arr = np.zeros(shape, dtype=np.int32)
        d[tm.name.decode()] = arr
      samples.append(d)
    out[sd.signatureKey.decode()] = samples
  return out


def shared_weight_model(rng):
  """two FULLY_CONNECTED ops reading ONE weight tensor (a constant with several consumers)"""
  mb = ModelBuilder(rng, name_style=0)
  gb = GraphBuilder(mb, 0, 'serving_default')
  n, m_ = rng.choice([3, 4, 6]), rng.choice([2, 3, 4])
  x = gb.act('serving_default_x', (rng.choice([1, 2]), n))
  gb.g.inputs.append(x)
  w = gb.fconst('serving_default/shared/w', [m_, n], kind='normal')
  outs = []
  for i in range(2):
    out = gb.act(f'serving_default/fc{i}/out', (gb.g.tensors[x].shape[0], m_))
    gb.op(B.FULLY_CONNECTED, [x, w, -1], [out], S.BuiltinOptions.FullyConnectedOptions,
          gb._mk(S.FullyConnectedOptionsT, fusedActivationFunction=0, keepNumDims=False,  # pylint: disable=protected-access
                 weightsFormat=0))
    outs.append(out)
  gb.g.outputs = np.array(outs, dtype=np.int32)
  gb.g.inputs = np.array(gb.g.inputs, dtype=np.int32)
  mb.m.subgraphs.append(gb.g)
  sd = S.SignatureDefT()
  sd.signatureKey = b'serving_default'
  sd.subgraphIndex = 0
  sd.inputs, sd.outputs = [], []
  tm = S.TensorMapT(); tm.name = b'x'; tm.tensorIndex = int(x); sd.inputs.append(tm)
  for i, t in enumerate(outs):
    tm = S.TensorMapT(); tm.name = f'y{i}'.encode(); tm.tensorIndex = int(t); sd.outputs.append(tm)
  mb.m.signatureDefs.append(sd)
  return mb.finish(), {'n_subgraphs': 1, 'ops': [2]}


def tied_unknown_model(rng):
  """two signatures: sig0 = FULLY_CONNECTED(x, W, b); sig1 = MAXIMUM(x', C) where C is
  tied (same BUFFER) to W or to b: a constant shared between an operator a recipe
  quantizes in one subgraph and an operator the quantizer does not know in another"""
  mb = ModelBuilder(rng, name_style=0)
  n = rng.choice([2, 3, 4])
  tie_weight = rng.random() < 0.5
  gbs = []
  # sig0
  g0 = GraphBuilder(mb, 0, 'sig0')
  x = g0.act('sig0_x', (1, n)); g0.g.inputs.append(x)
  w = g0.fconst('sig0/fc/w', [n, n], kind='normal')
  b = g0.fconst('sig0/fc/b', [n], kind='normal')
  y = g0.act('sig0/fc/out', (1, n))
  g0.op(B.FULLY_CONNECTED, [x, w, b], [y], S.BuiltinOptions.FullyConnectedOptions,
        g0._mk(S.FullyConnectedOptionsT, fusedActivationFunction=0, keepNumDims=False, weightsFormat=0))  # pylint: disable=protected-access
  g0.g.outputs = np.array([y], dtype=np.int32); g0.g.inputs = np.array(g0.g.inputs, dtype=np.int32)
  # sig1
  g1 = GraphBuilder(mb, 1, 'sig1')
  x1 = g1.act('sig1_x', (1, n)); g1.g.inputs.append(x1)
  src = g0.g.tensors[w if tie_weight else b]
  c = g1.tensor('sig1/maximum/c', [n, n] if tie_weight else [n], FLOAT32, buffer=src.buffer)
  y1 = g1.act('sig1/maximum/out', (n, n) if tie_weight else (1, n))
  g1.op(B.MAXIMUM, [x1, c], [y1], S.BuiltinOptions.MaximumMinimumOptions, g1._mk(S.MaximumMinimumOptionsT))  # pylint: disable=protected-access
  g1.g.outputs = np.array([y1], dtype=np.int32); g1.g.inputs = np.array(g1.g.inputs, dtype=np.int32)
  for gi, (gb, xin, yout) in enumerate(((g0, x, y), (g1, x1, y1))):
    mb.m.subgraphs.append(gb.g)
    sd = S.SignatureDefT()
    sd.signatureKey = f'sig{gi}'.encode()
    sd.subgraphIndex = gi
    sd.inputs, sd.outputs = [], []
    tm = S.TensorMapT(); tm.name = b'x'; tm.tensorIndex = int(xin); sd.inputs.append(tm)
    tm = S.TensorMapT(); tm.name = b'y'; tm.tensorIndex = int(yout); sd.outputs.append(tm)
    mb.m.signatureDefs.append(sd)
  return mb.finish(), {'n_subgraphs': 2, 'ops': [1, 1], 'tie_weight': tie_weight}


def biasless_fc_model(rng):
  """x -> FULLY_CONNECTED(w, no bias: operand index -1) -> RELU/NEG -> y: the tensor table
  ends with tensors of an operator a FULLY_CONNECTED-only recipe leaves alone"""
  mb = ModelBuilder(rng, name_style=0)
  gb = GraphBuilder(mb, 0, 'serving_default')
  bsz, n, m_ = rng.choice([1, 2]), rng.choice([3, 4]), rng.choice([2, 3])
  x = gb.act('serving_default_x', (bsz, n))
  gb.g.inputs.append(x)
  w = gb.fconst('serving_default/fc/w', [m_, n], kind='normal')
  h = gb.act('serving_default/fc/out', (bsz, m_))
  gb.op(B.FULLY_CONNECTED, [x, w, -1], [h], S.BuiltinOptions.FullyConnectedOptions,
        gb._mk(S.FullyConnectedOptionsT, fusedActivationFunction=0, keepNumDims=False, weightsFormat=0))  # pylint: disable=protected-access
  kind = rng.choice(['RELU', 'NEG'])
  y = gb.act(f'serving_default/{kind.lower()}/out', (bsz, m_))
  gb.op(getattr(B, kind), [h], [y])
  gb.g.outputs = np.array([y], dtype=np.int32)
  gb.g.inputs = np.array(gb.g.inputs, dtype=np.int32)
  mb.m.subgraphs.append(gb.g)
  sd = S.SignatureDefT()
  sd.signatureKey = b'serving_default'
  sd.subgraphIndex = 0
  sd.inputs, sd.outputs = [], []
  tm = S.TensorMapT(); tm.name = b'x'; tm.tensorIndex = int(x); sd.inputs.append(tm)
  tm = S.TensorMapT(); tm.name = b'y'; tm.tensorIndex = int(y); sd.outputs.append(tm)
  mb.m.signatureDefs.append(sd)
  return mb.finish(), {'n_subgraphs': 1, 'ops': [2]}


def unknown_reader_model(rng):
  """x -> MAXIMUM(x, C) -> ADD/MUL(y, C): ONE constant tensor read by an operator the
  quantizer does not know (it stays float) and by a quantizable operator"""
  mb = ModelBuilder(rng, name_style=0)
  gb = GraphBuilder(mb, 0, 'serving_default')
  bsz, n = rng.choice([1, 2]), rng.choice([3, 4, 6])
  x = gb.act('serving_default_x', (bsz, n))
  gb.g.inputs.append(x)
  c = gb.fconst('serving_default/shared/c', [n], kind='normal')
  y = gb.act('serving_default/maximum/out', (bsz, n))
  gb.op(B.MAXIMUM, [x, c], [y], S.BuiltinOptions.MaximumMinimumOptions, gb._mk(S.MaximumMinimumOptionsT))  # pylint: disable=protected-access
  kind = rng.choice(['ADD', 'MUL'])
  ot = {'ADD': (S.BuiltinOptions.AddOptions, S.AddOptionsT), 'MUL': (S.BuiltinOptions.MulOptions, S.MulOptionsT)}[kind]
  out = gb.act(f'serving_default/{kind.lower()}/out', (bsz, n))
  first, second = (y, c) if rng.random() < 0.5 else (x, c)
  gb.op(getattr(B, kind), [first, second], [out], ot[0], gb._mk(ot[1], fusedActivationFunction=0))  # pylint: disable=protected-access
  gb.g.outputs = np.array([out] if first == y else [out, y], dtype=np.int32)
  gb.g.inputs = np.array(gb.g.inputs, dtype=np.int32)
  mb.m.subgraphs.append(gb.g)
  sd = S.SignatureDefT()
  sd.signatureKey = b'serving_default'
  sd.subgraphIndex = 0
  sd.inputs, sd.outputs = [], []
  tm = S.TensorMapT(); tm.name = b'x'; tm.tensorIndex = int(x); sd.inputs.append(tm)
  for i_, t_ in enumerate(gb.g.outputs):
    tm = S.TensorMapT(); tm.name = f'y{i_}'.encode(); tm.tensorIndex = int(t_); sd.outputs.append(tm)
  mb.m.signatureDefs.append(sd)
  return mb.finish(), {'n_subgraphs': 1, 'ops': [2], 'kind': kind}


def reshape_concat_model(rng):
  """a[1,2n] -> RESHAPE [2,n] ; concat(reshape(a), b[2,n]) on axis 0: a byte-copying
  (same-scale) operator feeding a CONCATENATION whose other operand has a much wider
  range — the concat input must be REQUANTIZED to the output's parameters"""
  mb = ModelBuilder(rng, name_style=0)
  gb = GraphBuilder(mb, 0, 'serving_default')
  n = rng.choice([2, 3, 4])
  a = gb.act('serving_default_a', (1, 2 * n))
  b = gb.act('serving_default_b', (2, n))
  gb.g.inputs += [a, b]
  sh = gb.iconst('serving_default/reshape/shape', [2, n])
  r = gb.act('serving_default/reshape/out', (2, n))
  gb.op(B.RESHAPE, [a, sh], [r], S.BuiltinOptions.ReshapeOptions, gb._mk(S.ReshapeOptionsT, newShape=[2, n]))  # pylint: disable=protected-access
  out = gb.act('serving_default/concat/out', (4, n))
  parts = [r, b] if rng.random() < 0.5 else [b, r]
  gb.op(B.CONCATENATION, parts, [out], S.BuiltinOptions.ConcatenationOptions,
        gb._mk(S.ConcatenationOptionsT, axis=0, fusedActivationFunction=0))  # pylint: disable=protected-access
  gb.g.outputs = np.array([out], dtype=np.int32)
  gb.g.inputs = np.array(gb.g.inputs, dtype=np.int32)
  mb.m.subgraphs.append(gb.g)
  sd = S.SignatureDefT()
  sd.signatureKey = b'serving_default'
  sd.subgraphIndex = 0
  sd.inputs, sd.outputs = [], []
  for nm, t in (('a', a), ('b', b)):
    tm = S.TensorMapT(); tm.name = nm.encode(); tm.tensorIndex = int(t); sd.inputs.append(tm)
  tm = S.TensorMapT(); tm.name = b'y'; tm.tensorIndex = int(out); sd.outputs.append(tm)
  mb.m.signatureDefs.append(sd)
  return mb.finish(), {'n_subgraphs': 1, 'ops': [2]}


def shared_operand_model(rng):
  """x -> op1(x, C) -> op2(y1, C): ONE constant tensor read by two element-wise ops
  (as an activation-type operand): rules that give the two ops different
  activation widths want two representations of C at once"""
  mb = ModelBuilder(rng, name_style=0)
  gb = GraphBuilder(mb, 0, 'serving_default')
  bsz, n = rng.choice([1, 2]), rng.choice([3, 4, 6])
  x = gb.act('serving_default_x', (bsz, n))
  gb.g.inputs.append(x)
  c = gb.fconst('serving_default/shared/c', [n] if rng.random() < 0.5 else [bsz, n], kind='normal')
  kinds = rng.sample(['ADD', 'MUL', 'SUB'], 2)
  ot = {'ADD': (S.BuiltinOptions.AddOptions, S.AddOptionsT),
        'SUB': (S.BuiltinOptions.SubOptions, S.SubOptionsT),
        'MUL': (S.BuiltinOptions.MulOptions, S.MulOptionsT)}
  cur = x
  for i, kind in enumerate(kinds):
    out = gb.act(f'serving_default/{kind.lower()}_{i}/out', (bsz, n))
    gb.op(getattr(B, kind), [cur, c], [out], ot[kind][0], gb._mk(ot[kind][1], fusedActivationFunction=0))  # pylint: disable=protected-access
    cur = out
  gb.g.outputs = np.array([cur], dtype=np.int32)
  gb.g.inputs = np.array(gb.g.inputs, dtype=np.int32)
  mb.m.subgraphs.append(gb.g)
  sd = S.SignatureDefT()
  sd.signatureKey = b'serving_default'
  sd.subgraphIndex = 0
  sd.inputs, sd.outputs = [], []
  tm = S.TensorMapT(); tm.name = b'x'; tm.tensorIndex = int(x); sd.inputs.append(tm)
  tm = S.TensorMapT(); tm.name = b'y'; tm.tensorIndex = int(cur); sd.outputs.append(tm)
  mb.m.signatureDefs.append(sd)
  return mb.finish(), {'n_subgraphs': 1, 'ops': [2], 'kinds': kinds}


def fc3d_model(rng):
  """x[1,S,K] -> FULLY_CONNECTED(keepNumDims) with optional bias and fused activation
  (-> TANH): the shape the op-replacement (emulated sub-channel) transformation accepts"""
  mb = ModelBuilder(rng, name_style=0)
  gb = GraphBuilder(mb, 0, 'serving_default')
  s_, k_, n_ = rng.choice([1, 2, 3]), rng.choice([8, 16]), rng.choice([2, 4])
  x = gb.act('serving_default_x', (1, s_, k_))
  gb.g.inputs.append(x)
  w = gb.fconst('serving_default/fc/w', [n_, k_], kind='normal')
  b = -1 if rng.random() < 0.4 else gb.fconst('serving_default/fc/b', [n_], kind='normal')
  out = gb.act('serving_default/fc/out', (1, s_, n_))
  gb.op(B.FULLY_CONNECTED, [x, w, b], [out], S.BuiltinOptions.FullyConnectedOptions,
        gb._mk(S.FullyConnectedOptionsT, fusedActivationFunction=rng.choice([0, 1, 1]),  # pylint: disable=protected-access
               keepNumDims=True, weightsFormat=0))
  last = out
  if rng.random() < 0.5:
    t = gb.act('serving_default/tanh/out', (1, s_, n_))
    gb.op(B.TANH, [out], [t])
    last = t
  for t_ in gb.g.tensors:
    t_.quantization = S.QuantizationParametersT()     # as the converter emits it: present, empty
  gb.g.outputs = np.array([last], dtype=np.int32)
  gb.g.inputs = np.array(gb.g.inputs, dtype=np.int32)
  mb.m.subgraphs.append(gb.g)
  sd = S.SignatureDefT()
  sd.signatureKey = b'serving_default'
  sd.subgraphIndex = 0
  sd.inputs, sd.outputs = [], []
  tm = S.TensorMapT(); tm.name = b'x'; tm.tensorIndex = int(x); sd.inputs.append(tm)
  tm = S.TensorMapT(); tm.name = b'y'; tm.tensorIndex = int(last); sd.outputs.append(tm)
  mb.m.signatureDefs.append(sd)
  return mb.finish(), {'n_subgraphs': 1, 'ops': [len(gb.g.operators)]}


def fc3d_tied_model(rng, n_readers=2):
  """x[1,S,K] -> n FULLY_CONNECTED(keepNumDims) ops reading ONE weight tensor: the
  op-replacement (emulated sub-channel / BLOCKWISE) transformation rewrites the
  weight in place and replaces ONE consumer"""
  mb = ModelBuilder(rng, name_style=0)
  gb = GraphBuilder(mb, 0, 'serving_default')
  s_, k_, n_ = rng.choice([1, 2, 3]), rng.choice([8, 16]), rng.choice([2, 4])
  x = gb.act('serving_default_x', (1, s_, k_))
  gb.g.inputs.append(x)
  w = gb.fconst('serving_default/shared/w', [n_, k_], kind='normal')
  outs = []
  for i in range(n_readers):
    out = gb.act(f'serving_default/fc{i}/out', (1, s_, n_))
    gb.op(B.FULLY_CONNECTED, [x, w, -1], [out], S.BuiltinOptions.FullyConnectedOptions,
          gb._mk(S.FullyConnectedOptionsT, fusedActivationFunction=0,  # pylint: disable=protected-access
                 keepNumDims=True, weightsFormat=0))
    outs.append(out)
  for t_ in gb.g.tensors:
    t_.quantization = S.QuantizationParametersT()
  gb.g.outputs = np.array(outs, dtype=np.int32)
  gb.g.inputs = np.array(gb.g.inputs, dtype=np.int32)
  mb.m.subgraphs.append(gb.g)
  sd = S.SignatureDefT()
  sd.signatureKey = b'serving_default'
  sd.subgraphIndex = 0
  sd.inputs, sd.outputs = [], []
  tm = S.TensorMapT(); tm.name = b'x'; tm.tensorIndex = int(x); sd.inputs.append(tm)
  for i, t in enumerate(outs):
    tm = S.TensorMapT(); tm.name = f'y{i}'.encode(); tm.tensorIndex = int(t); sd.outputs.append(tm)
  mb.m.signatureDefs.append(sd)
  return mb.finish(), {'n_subgraphs': 1, 'ops': [n_readers]}
