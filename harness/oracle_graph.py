"""Direct oracles on flatbuffer models, independent of the library code under
test and of the Coq model: abstraction of a ModelT, well-formedness (C01),
skeleton / I/O contract (C02), interpreter loadability in a forked child."""
import multiprocessing as mp
import os
import re

import numpy as np

from ai_edge_litert import schema_py_generated as S
from tensorflow.lite.tools import flatbuffer_utils as FU

QUANTIZE, DEQUANTIZE = 114, 6
SUFFIXES = ('_quantized', '_dequant')


def read(model_bytes):
  return FU.read_model_from_bytearray(bytearray(model_bytes))


def tname(t):
  return t.name.decode('utf-8')


def abstract(m):
  """Plain-python view of what the quantizer reads/writes."""
  out = {'subgraphs': [], 'opcodes': [int(c.builtinCode) for c in m.operatorCodes],
         'n_buffers': len(m.buffers), 'sigs': []}
  for g in m.subgraphs:
    ts = []
    for t in g.tensors:
      q = t.quantization
      has_q = q is not None and q.scale is not None and len(q.scale) > 0
      ts.append({'name': tname(t), 'shape': [int(x) for x in t.shape]
                 if t.shape is not None else [], 'type': int(t.type),
                 'buffer': int(t.buffer),
                 'q': None if not has_q else {
                     'scale': [float(x) for x in q.scale],
                     'zp': [int(x) for x in q.zeroPoint],
                     'qdim': int(q.quantizedDimension)}})
    ops = []
    for o in g.operators:
      ops.append({'code': int(m.operatorCodes[o.opcodeIndex].builtinCode),
                  'opcode_index': int(o.opcodeIndex),
                  'ins': [int(x) for x in o.inputs],
                  'outs': [int(x) for x in o.outputs],
                  'opts_type': int(o.builtinOptionsType),
                  'opts': _opts_repr(o.builtinOptions)})
    out['subgraphs'].append({'tensors': ts, 'ops': ops,
                             'inputs': [int(x) for x in g.inputs],
                             'outputs': [int(x) for x in g.outputs]})
  for sd in (m.signatureDefs or []):
    out['sigs'].append({'key': sd.signatureKey.decode(), 'sg': int(sd.subgraphIndex),
                        'inputs': [(tm.name.decode(), int(tm.tensorIndex)) for tm in sd.inputs],
                        'outputs': [(tm.name.decode(), int(tm.tensorIndex)) for tm in sd.outputs]})
  return out


def _opts_repr(o):
  if o is None:
    return None
  d = {}
  for k, v in sorted(vars(o).items()):
    if isinstance(v, np.ndarray):
      v = v.tolist()
    d[k] = v
  return repr(d)


def addsub_multiplier_overflow(m):
  """LiteRT add.cc / sub.cc (8-bit and general 16-bit path) compute
  real_output_multiplier = 2*max(s_in1, s_in2) / (2^left_shift * s_out) with
  left_shift 15 (int16) / 20 (int8) and CHECK-abort when it is >= 1.  Returns the
  name of the first ADD/SUB output for which that holds (F28), else None."""
  for g in m.subgraphs:
    for o in g.operators:
      if int(m.operatorCodes[o.opcodeIndex].builtinCode) not in (0, 41):
        continue
      ts = [g.tensors[int(x)] for x in list(o.inputs)[:2] + list(o.outputs)[:1]]
      if len(ts) != 3 or any(t.quantization is None or t.quantization.scale is None
                             or len(t.quantization.scale) != 1 for t in ts):
        continue
      if int(ts[2].type) not in (7, 9):
        continue
      ls = 15 if int(ts[2].type) == 7 else 20
      s1, s2, so = (float(t.quantization.scale[0]) for t in ts)
      if so > 0 and 2 * max(s1, s2) / ((1 << ls) * so) >= 1.0:
        return tname(ts[2])
  return None


def is_const(m, t):
  b = m.buffers[t.buffer]
  return b.data is not None and len(b.data) > 0


def check_wf(m):
  """C01 structural clauses. Returns list of (key, message)."""
  bad = []
  names = set()
  for gi, g in enumerate(m.subgraphs):
    nt = len(g.tensors)
    for t in g.tensors:
      n = tname(t)
      if n in names:
        bad.append(('C01:duplicate-name', f'tensor name {n!r} not unique'))
      names.add(n)
      if not 0 <= t.buffer < len(m.buffers):
        bad.append(('C01:buffer-index', f'tensor {n} buffer {t.buffer}'))
    producers = {}
    available = set(int(x) for x in g.inputs)
    for ti, t in enumerate(g.tensors):
      if is_const(m, t) or getattr(t, 'isVariable', False):
        available.add(ti)          # constants and variable (state) tensors need no producer
    for oi, o in enumerate(g.operators):
      if not 0 <= o.opcodeIndex < len(m.operatorCodes):
        bad.append(('C01:opcode-index', f'sg{gi} op{oi}'))
      for x in o.inputs:
        x = int(x)
        if x == -1:
          continue
        if not 0 <= x < nt:
          bad.append(('C01:tensor-index', f'sg{gi} op{oi} input {x}'))
        elif x not in available:
          bad.append(('C01:exec-order', f'sg{gi} op{oi} reads tensor {x} '
                      f'({tname(g.tensors[x])}) before it is produced'))
      for x in o.outputs:
        x = int(x)
        if not 0 <= x < nt:
          bad.append(('C01:tensor-index', f'sg{gi} op{oi} output {x}'))
          continue
        if x in producers:
          bad.append(('C01:multi-producer', f'sg{gi} tensor {x} produced by '
                      f'op{producers[x]} and op{oi}'))
        producers[x] = oi
        available.add(x)
    for x in list(g.inputs) + list(g.outputs):
      if not 0 <= int(x) < nt:
        bad.append(('C01:io-index', f'sg{gi} io tensor {x}'))
    for x in g.outputs:
      if 0 <= int(x) < nt and int(x) not in available:
        bad.append(('C01:output-not-produced', f'sg{gi} output {x}'))
  for sd in (m.signatureDefs or []):
    if not 0 <= sd.subgraphIndex < len(m.subgraphs):
      bad.append(('C01:sig-subgraph', sd.signatureKey.decode()))
      continue
    nt = len(m.subgraphs[sd.subgraphIndex].tensors)
    for tm in list(sd.inputs) + list(sd.outputs):
      if not 0 <= tm.tensorIndex < nt:
        bad.append(('C01:sig-index', f'{sd.signatureKey.decode()}:{tm.name.decode()}'))
  return bad


def erase(m, orig_names_per_sg):
  """C02: drop inserted QUANTIZE/DEQUANTIZE ops (output tensor not an
  original tensor), substituting their output by their input."""
  res = []
  for gi, g in enumerate(m.subgraphs):
    n_orig = orig_names_per_sg[gi]
    sub = {}
    ops = []
    for o in g.operators:
      code = int(m.operatorCodes[o.opcodeIndex].builtinCode)
      if code in (QUANTIZE, DEQUANTIZE) and len(o.outputs) == 1 and int(
          o.outputs[0]) >= n_orig:
        src = int(o.inputs[0])
        sub[int(o.outputs[0])] = sub.get(src, src)
        continue
      ops.append((code, [sub.get(int(x), int(x)) for x in o.inputs],
                  [int(x) for x in o.outputs], int(o.builtinOptionsType),
                  _opts_repr(o.builtinOptions)))
    res.append({'ops': ops,
                'inputs': [sub.get(int(x), int(x)) for x in g.inputs],
                'outputs': [sub.get(int(x), int(x)) for x in g.outputs],
                'sub': sub})
  return res


def check_skeleton(m_in, m_out, io_rules=None):
  """C02 clauses. io_rules: per subgraph (input_covered, output_covered) —
  whether a recipe rule covers the model's INPUT/OUTPUT."""
  bad = []
  if len(m_in.subgraphs) != len(m_out.subgraphs):
    return [('C02:subgraph-count', '')]
  n_orig = [len(g.tensors) for g in m_in.subgraphs]
  e_out = erase(m_out, n_orig)
  for gi, (gin, gout) in enumerate(zip(m_in.subgraphs, m_out.subgraphs)):
    # original tensors keep index, name, shape
    for ti, t in enumerate(gin.tensors):
      if ti >= len(gout.tensors):
        bad.append(('C02:tensor-dropped', f'sg{gi} t{ti}'))
        continue
      u = gout.tensors[ti]
      if tname(t) != tname(u):
        bad.append(('C02:tensor-renamed', f'sg{gi} t{ti} {tname(t)}->{tname(u)}'))
      if list(t.shape) != list(u.shape):
        bad.append(('C02:tensor-reshaped', f'sg{gi} t{ti}'))
    ops_in = [(int(m_in.operatorCodes[o.opcodeIndex].builtinCode),
               [int(x) for x in o.inputs], [int(x) for x in o.outputs],
               int(o.builtinOptionsType), _opts_repr(o.builtinOptions))
              for o in gin.operators]
    if ops_in != e_out[gi]['ops']:
      k = next((i for i, (a, b) in enumerate(zip(ops_in, e_out[gi]['ops']))
                if a != b), min(len(ops_in), len(e_out[gi]['ops'])))
      bad.append(('C02:skeleton', f'sg{gi}: erased graph differs from input at '
                  f'op {k}: in={ops_in[k] if k < len(ops_in) else None} '
                  f'out={e_out[gi]["ops"][k] if k < len(e_out[gi]["ops"]) else None}'))
    if [int(x) for x in gin.inputs] != e_out[gi]['inputs']:
      bad.append(('C02:inputs-changed', f'sg{gi}'))
    if [int(x) for x in gin.outputs] != e_out[gi]['outputs']:
      bad.append(('C02:outputs-changed', f'sg{gi} {list(gin.outputs)} -> '
                  f'{e_out[gi]["outputs"]} (raw {list(gout.outputs)})'))
    # raw: number/order/shape of io
    for a, b in zip(list(gin.outputs), list(gout.outputs)):
      if list(gin.tensors[a].shape) != list(gout.tensors[b].shape):
        bad.append(('C02:output-shape', f'sg{gi}'))
    if io_rules is not None:
      icov, ocov = io_rules[gi]
      if not icov:
        for x in gout.inputs:
          if gout.tensors[x].type != S.TensorType.FLOAT32 and \
              gin.tensors[x].type == S.TensorType.FLOAT32:
            bad.append(('C02:input-not-float', f'sg{gi} input {tname(gout.tensors[x])} '
                        f'type {gout.tensors[x].type} with no INPUT rule'))
      if not ocov:
        for a, x in zip(gin.outputs, gout.outputs):
          if gout.tensors[x].type != S.TensorType.FLOAT32 and \
              gin.tensors[a].type == S.TensorType.FLOAT32:
            bad.append(('C02:output-not-float', f'sg{gi} output {tname(gout.tensors[x])} '
                        f'type {gout.tensors[x].type} with no OUTPUT rule'))
  # signatures
  sin = m_in.signatureDefs or []
  sout = m_out.signatureDefs or []
  if len(sin) != len(sout):
    bad.append(('C02:signature-count', ''))
  for a, b in zip(sin, sout):
    if a.signatureKey != b.signatureKey or a.subgraphIndex != b.subgraphIndex:
      bad.append(('C02:signature-key', ''))
      continue
    gi = a.subgraphIndex
    if [t.name for t in a.inputs] != [t.name for t in b.inputs] or \
        [t.name for t in a.outputs] != [t.name for t in b.outputs]:
      bad.append(('C02:signature-args', ''))
      continue
    gin, gout = m_in.subgraphs[gi], m_out.subgraphs[gi]
    # each signature entry denotes the same tensor as the corresponding
    # subgraph input/output: position of the entry's tensor in the subgraph
    # io list must be preserved
    for ta, tb in zip(a.inputs, b.inputs):
      pa = [i for i, x in enumerate(gin.inputs) if int(x) == ta.tensorIndex]
      pb = [i for i, x in enumerate(gout.inputs) if int(x) == tb.tensorIndex]
      if pa != pb:
        bad.append(('C02:signature-input-stale', f'{a.signatureKey.decode()}:'
                    f'{ta.name.decode()} -> tensor {tb.tensorIndex}, subgraph '
                    f'inputs {list(gout.inputs)}'))
    for ta, tb in zip(a.outputs, b.outputs):
      pa = [i for i, x in enumerate(gin.outputs) if int(x) == ta.tensorIndex]
      pb = [i for i, x in enumerate(gout.outputs) if int(x) == tb.tensorIndex]
      if pa != pb:
        bad.append(('C02:signature-output-stale', f'{a.signatureKey.decode()}:'
                    f'{ta.name.decode()} -> tensor {tb.tensorIndex}, subgraph '
                    f'outputs {list(gout.outputs)}'))
  return bad


# ---------------------------------------------------------------------------
def _interp_child(model_bytes, inputs, conn, errpath=None):
  try:
    if errpath:
      fd = os.open(errpath, os.O_WRONLY | os.O_CREAT | os.O_TRUNC)
      os.dup2(fd, 2)
    from ai_edge_litert import interpreter as tfl
    it = tfl.Interpreter(
        model_content=bytes(model_bytes),
        experimental_op_resolver_type=tfl.OpResolverType.BUILTIN_WITHOUT_DEFAULT_DELEGATES,
        experimental_preserve_all_tensors=True)
    it.allocate_tensors()
    outs = {}
    sigs = it.get_signature_list()
    for key in sigs:
      r = it.get_signature_runner(key)
      feed = {}
      for name, det in r.get_input_details().items():
        arr = None
        if inputs and key in inputs and name in inputs[key]:
          arr = np.asarray(inputs[key][name])
        if arr is None:
          arr = np.zeros(det['shape'], dtype=det['dtype'])
        if arr.dtype != det['dtype']:
          sc, zp = det['quantization']
          if sc:
            info = np.iinfo(det['dtype'])
            arr = np.clip(np.rint(arr / sc + zp), info.min, info.max)
          arr = arr.astype(det['dtype'])
        feed[name] = arr
      res = r(**feed)
      o = {}
      for name, det in r.get_output_details().items():
        v = res[name]
        sc, zp = det['quantization']
        if sc and v.dtype != np.float32:
          v = (v.astype(np.float64) - zp) * sc
        o[name] = np.asarray(v, dtype=np.float64)
      outs[key] = o
    conn.send(('ok', outs))
  except BaseException as e:  # pylint: disable=broad-except
    try:
      conn.send(('error', f'{type(e).__name__}: {e}'))
    except Exception:  # pylint: disable=broad-except
      pass
  finally:
    conn.close()


def run_interpreter(model_bytes, inputs=None, timeout=120):
  """allocate+invoke every signature in a forked child.
  Returns ('ok', outs) | ('error', msg) | ('abort', signal/exit)."""
  ctx = mp.get_context('fork')
  parent, child = ctx.Pipe(duplex=False)
  import tempfile
  errf = tempfile.NamedTemporaryFile(prefix='vf_interp_', suffix='.err', delete=False)
  errf.close()
  p = ctx.Process(target=_interp_child, args=(model_bytes, inputs, child, errf.name))
  p.start()
  child.close()
  res = None
  if parent.poll(timeout):
    try:
      res = parent.recv()
    except EOFError:
      res = None
  p.join(5)
  try:
    with open(errf.name, errors='replace') as fh:
      errtail = ' | '.join(l.strip() for l in fh.read().splitlines()[-3:])
  except OSError:
    errtail = ''
  try:
    os.remove(errf.name)
  except OSError:
    pass
  if p.is_alive():
    p.kill()
    p.join()
    return ('abort', 'timeout')
  if res is None:
    return ('abort', f'exit code {p.exitcode}: {errtail}')
  return res
