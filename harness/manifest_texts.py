"""Texts for MANIFEST.json (tools/mkmanifest.py)."""
HOOKS = {
    'guard': 'AI_EDGE_QUANTIZER_VERIF',
    'enable': 'checks export AI_EDGE_QUANTIZER_VERIF=1 and import /repo through PYTHONPATH=/repo',
    'baseline_off_cmd': 'cd /repo && env -u AI_EDGE_QUANTIZER_VERIF /venv/bin/python -m pytest -ra -q -p no:cacheprovider --timeout=900 --continue-on-collection-errors',
    'source_commits': ['ae24e18'],
    'add_only': True,
}
NOTES = ('See DESIGN.md. Every check regenerates coq/Gen from /repo, rebuilds the .vo closure of its '
         'Props file, audits the sources, recompiles the Props file to capture Print Assumptions, '
         'then runs correspondence + direct oracles against /repo. KNOWN_FINDINGS.json lists '
         'genuine defects (open) and repaired ones (fixed).')
NOT_CLAIMED = {}
TEXTS = {
    'C11': {
        'level': ('Unbounded theorems (every support check, every regex matcher, every reachable '
                  'state): resolution = last applicable rule of the flattened rule list; one add '
                  'performs the documented edit (replace in place, * resets, first-insertion scope '
                  'order); queries are pure; the support check raises ValueError only. Model tied to '
                  'recipe_manager.py by differential correspondence (exhaustive short histories + '
                  'random long ones) and the checkers/policy/registry are regenerated from source.'),
        'note': ('Trusted: Coq kernel, py2v translator, correspondence harness; re.search is a '
                 'parameter of the model (table supplied by the harness). Axioms: none.'),
    },
    'C12': {
        'level': ('Theorem: load(get_recipe s) = s for every reachable state satisfying exactly the '
                  'guard the code imposes (proved for all support checks); shipped recipe files '
                  '(regenerated from /repo) load and the default ones re-export to themselves '
                  '(vm_compute); the two ways the unguarded statement fails are _refuted theorems with '
                  'witnesses replayed on the implementation (known findings F9a/F9b).'),
        'note': ('Trusted: as C11 + json/dataclasses.asdict exercised not modelled. Byte-identical '
                 'quantize() after reload rests on C11 (function of rule list) + C14. Axioms: none.'),
    },
    'C13': {
        'level': ('Finite-domain proof: forallb over the whole 23040-point lattice by vm_compute lifted with '
                  'forallb_forall: accepted => materializer registered, mode defined and - outside ONE class - pair in '
                  'the kernel support table; acceptance = kernel support exactly, plus that class; the class '
                  '(dynamic-range DEPTHWISE_CONV_2D, per-tensor int8 weights) is a _refuted theorem whose witness the '
                  'runtime step replays on the implementation (garbage outputs: known finding F20); every other point is '
                  'ValueError or not constructible; * / specific-op consistency proved for all checks. Exhaustive '
                  'correspondence of the classification with the implementation, and a runtime step that quantizes a '
                  'single-op model for EVERY accepted pair, runs it in the interpreter and compares float-compute modes '
                  'with the float op on dequantized constants.'),
        'note': ('Spec/KernelTypes.v is a trusted transcription of LiteRT kernel support, validated by execution of every '
                 'accepted pair. Axioms: none.'),
    },
    'C01': {
        'level': ('Unbounded theorems on the pipeline model (all models, recipes, statistics, instruction lists): (1) one '
                  'QUANTIZE/DEQUANTIZE insertion or in-place quantization preserves well-formedness of a subgraph (indices in '
                  'range, single producer, producers before readers, I/O in range) and lands after the producer and before '
                  'every rewired reader; (2) COMPOSITION: a global invariant of the performer - the two op-id maps resolve '
                  'every pending instruction\'s producer reference to the real position of the op writing its tensor - is '
                  'preserved by every step incl. map shifting and instruction retargeting; (3) every instruction the generator '
                  'model emits is exact; hence (4) the whole pipeline model returns a model satisfying wf_model (all tensor, buffer and opcode indices in range, single producer, valid execution order, graph I/O and signature entries naming existing tensors) or raises. Tied to '
                  '/repo by correspondences I/T/E and E2 (whole pipeline model vs the bytes quantize() returns) and by '
                  'regenerated predicates; a WF oracle and the interpreter run on every returned model.'),
        'note': ('Unique tensor names are checked by oracle + correspondence, not proved; interpreter behaviour is runtime '
                 '(known finding F15). Axioms: none.'),
    },
    'C02': {
        'level': ('Unbounded theorems: (step) an insertion rewires exactly the listed consumers (and the graph output only when '
                  '-1 is listed), changes no other operand/result/option, adds exactly one op; in-place quantization keeps all '
                  'wiring; signature outputs follow a rewired output within the same subgraph only. (COMPOSITION) for the '
                  'result of running ANY exact instruction lists - hence for the whole pipeline model - every subgraph has the '
                  'SKELETON of the input subgraph through a strictly increasing position map: the op at om[i] is original op '
                  'i with the same opcode index, options and results, each operand derives from the original operand through '
                  'inserted ops only, every other op is an inserted one-in/one-out op writing a new tensor, original tensors '
                  'keep index, name and shape, inputs unchanged, outputs derive from the original outputs. Tied by I/T/E and '
                  'E2; a skeleton/erasure/signature oracle compares input and output flatbuffers.'),
        'note': ('The I/O dtype clause (float unless INPUT/OUTPUT is covered) and signature consistency over whole runs are '
                 'checked by oracle + correspondence, not proved. Axioms: none.'),
    },
    'C09': {
        'level': ('Theorem (all models, recipes, matchers, stores, sample indices): one calibration sample changes a '
                  "tensor's entry at most once and then by exactly that sample's min/max of that tensor, regardless of "
                  'how many selected ops touch it or how many virtual I/O operators have accumulated; first sample '
                  'initialises; recorded entries never become empty; the result holds entries ONLY for names of the '
                  'previous result and for present operands of operators the recipe selects (no absent operand, no '
                  'unselected operator). Model (Calibrator + init/collect functions, '
                  'statistics as terms) tied to /repo by correspondence K with BITWISE comparison of the moving '
                  "average evaluated from the check's own interpreter samples, incl. chained multi-signature runs; "
                  'direct oracles for exactness, resumability (random splits), previous-result immutability, '
                  'history independence.'),
        'note': 'Resume law proved on the model (C09_resume_equals_one_pass, C09_io_operator_copies_are_irrelevant); interpreter contents are runtime. Axioms: none.',
    },
    'C10': {
        'level': ('Theorem: the calibration-side and quantization-side scope functions, REGENERATED from the two '
                  'source files on every run, produce the same token list for every list of result tensors; hence '
                  'identical resolution of every operator under every rule list and matcher, per operator of every '
                  'subgraph incl. the virtual INPUT/OUTPUT ops. Correspondences K and P tie both selection loops to '
                  '/repo; oracles compare the selection sets computed with the library\'s own scope functions and '
                  'run quantize(calibrate()) for missing statistics, over anchored and ;-containing regexes.'),
        'note': 'No-missing-statistics: both halves proved (calibration coverage; error only for an absent runtime entry), composition executed. Axioms: none.',
    },
    'C17': {
        'level': ('Theorems over ALL real ranges min<=max, bit widths >= 2, both symmetries (ideal arithmetic, Flocq '
                  'round-half-even): scale > 0, zero point in range, zero exactly representable, range covered up to '
                  'half a step, quantize in (narrow) range and monotone, |deq(q x) - x| <= scale/2 in range, '
                  'q(deq c) = c for every code. The implemented float32/float64 arithmetic is a bit-exact Flocq model '
                  '(correspondence A: thousands of rows compared as IEEE bit patterns with numpy) on which every '
                  '4/8-bit code is swept inside the kernel over a stated grid; scale finiteness is REFUTED for ranges '
                  'wider than FLT_MAX (known finding F12); the int8 wrap-around defect (F11) was repaired.'),
        'note': ('Float32-vs-real rounding envelope not proved. Axioms: the standard Reals axioms via Flocq '
                 '(sig_forall_dec, sig_not_dec, functional_extensionality_dep, classic).'),
    },
    'C03': {
        'level': ('Theorems for ALL configs/operands/graphs: the REGENERATED decision function maps each of the three '
                  'modes to the documented per-operand transformation (static: quantize activations in, dequantize out, '
                  'constants in place; dynamic: only constants in place; weight-only: constants behind a DEQUANTIZE) and '
                  'every policy-accepted config is in one of them (finite, vm_compute); ops resolved to no-quantize and '
                  'non-float/ignored operands plan NO_QUANTIZE; one performer step retypes exactly one tensor to the '
                  'integer dtype of the configured width, an inserted QUANTIZE/DEQUANTIZE converts between the dtypes of '
                  'its neighbours, and only the transformed tensor\'s buffer can change; WHOLE RUNS of the performer, in terms of the '
                  'input model: a tensor no instruction names keeps dtype/buffer/annotation and its readers; a tensor quantized '
                  'in place gets the selected dtype and keeps its readers; the tensor created by the last instruction of a '
                  'nested list is read by exactly the original operators it lists, at their original operand slots -- '
                  'also stated with the instruction generator in front and every remaining hypothesis decided by an '
                  'executable check (last_hypb, proved sound) that correspondence I evaluates in Coq on every generated '
                  'instruction list (NO_QUANTIZE instructions are proved inert and dropped first); no policy config '
                  'quantizes activations per channel. '
                  'Tied by correspondences P, I, T/E; '
                  'a per-operand dtype oracle derived from the recipe resolution runs on every returned model.'),
        'note': ('The instruction generator is covered by two theorems over ALL plan entries (no consumer position is lost; '
                 'no instruction is invented; the three vertical rewrites are the only deviations and only at position 0 '
                 'against an ADD_DEQUANTIZE producer); operand-level whole-run theorems of the performer cover untouched operands, '
                 'in-place quantization, disjoint insertions and insertions re-targeted onto an enclosing earlier one (last '
                 'instruction of a nested list). Partially overlapping consumer lists (not emitted by the generator) and the '
                 'nestedness of generated lists: groups at any depths are nested or disjoint and every consumer-side '
                 'instruction lists one group, emitted by non-decreasing depth, so a later consumer list lies inside an '
                 'earlier one or is disjoint from it (theorems); the producer-side instructions and the vertical rewrites\' '
                 'effect on the producer\'s list are not proved -- instead the full hypothesis set of the last-instruction theorem is DECIDED in Coq '
                 '(last_hypb, sound) on every generated list by correspondence I. Axioms: none.'),
    },
    'C04': {
        'level': ('Theorems on the plan model with parameters as provenance terms (all models, configs, stores): every '
                  'tensor gets the reference min/max formula of ITS OWN statistics under the right config; same-scale ops '
                  'share the operand\'s parameters and propagate its statistics; concatenation operands share the result\'s; '
                  'bias = Bias(input, weight); softmax/logistic/tanh get the kernel\'s fixed range (literals regenerated and '
                  'pinned); per-channel only under a CHANNELWISE weight config on the op\'s own dimension; reference '
                  'parameters have positive scale and in-range zero point (Reals). Correspondence P evaluates every term with '
                  'the library\'s numeric functions and requires == with the attached parameters; an independent float64 '
                  'oracle re-derives parameters from statistics.'),
        'note': ('Numeric clause on ideal arithmetic; float32 implementation tied bit-exactly by correspondence A. '
                 'Axioms: Reals axioms via Flocq for C04_reference_parameters_wellformed only.'),
    },
    'C05': {
        'level': ('Theorems: int4 packing round-trips for lists of EVERY length (low nibble first, zero-padded odd tail, '
                  '(n+1)/2 bytes, bytes in 0..255); every element of a constant quantized with parameters from its own '
                  'range decodes within HALF a step, symmetric and asymmetric, in exact arithmetic; bias = '
                  'round-half-even(b/s) unless saturating; the float16 cast is IEEE round-to-nearest-even to binary16 '
                  '(Flocq binary_normalize_correct). The float32 code is the bit-exact model of C17 (correspondence A incl. '
                  '_pack_data and astype(float16)); interface E compares the bytes of every rewritten buffer; an '
                  'independent decoder checks every rewritten constant of every returned model.'),
        'note': ('Float32-vs-real envelope not proved (oracle slack stated). Axioms: Reals axioms via Flocq.'),
    },
    'C15': {
        'level': ('Theorems: the REGENERATED pairwise compatibility predicate of the buffer-sharing check guarantees that '
                  'two users of one constant either both keep float bytes or both rewrite them with equal parameters; a '
                  'write sets bytes, dtype and parameter id together and touches no other buffer; a second write with the '
                  'same parameters is idempotent. The group loop is tied by correspondence P, the pipeline by I/T/E; an '
                  'oracle decodes every shared buffer of every returned model against all tensors referencing it.'),
        'note': ('Global statement (all tensors on a buffer agree after the whole run) is validated by the oracle, '
                 'not proved. Axioms: none.'),
    },
    'C08': {
        'level': ('Theorem (finite decision table over the REGENERATED shipped recipes, policy and registry, lifted to all '
                  'graphs): every shipped default recipe loads and resolves every operator name either to no-quantize or to '
                  'a config with a registered materializer, a defined per-operand transformation, no block-wise weights and '
                  'an accepted fixed-range width - so the recipe-dependent raise sites of plan generation are unreachable. '
                  'Graph-dependent raise sites: correspondences P and I/T/E (same exception or same model) plus an end-to-end '
                  'oracle driving Quantizer/calibrate/quantize with every shipped recipe on generated graphs.'),
        'note': ('Rejection of conflicting shared constants is a genuine defect w.r.t. this property (known findings F17, '
                 'F18, keyed by cause so that any other rejection is still reported). Axioms: none.'),
    },
    'C19': {
        'level': ('Theorems (all models, instructions, states): a performer step addressed to subgraph s changes no other '
                  'subgraph, none of their op-id maps and none of their signatures; the shared opcode table only grows so '
                  'indices already in use keep their meaning; with model-wide unique names the global name-keyed '
                  'tensor-info map returns, for every tensor, the producer/consumers computed from its OWN subgraph (and a '
                  'counterexample shows the uniqueness contract is needed); WHOLE-RUN: the performer, the instruction '
                  'generator AND the params generator (one result dict and one statistics dict keyed by name for the whole '
                  'model) are each proved per subgraph, and composed: plan entries, instructions and resulting subgraph k of '
                  'the whole model equal those of the model consisting of k alone, for every recipe state and all statistics. '
                  'End-to-end oracle: subgraph i of '
                  'quantize(M) equals subgraph 0 of quantize(extract_i(M)) structurally and by constant content, on '
                  'generated multi-signature models; correspondences P and I/T/E run on the same multi-subgraph models.'),
        'note': ('The buffer-sharing check between plan and instruction generation is cross-subgraph by nature (C15) and '
                 'outside the stand-alone theorem; the theorem takes ONE parameter classification for both sides (as parameter '
                 'values are in the code). Axioms: none.'),
    },
    'C14': {
        'level': ('Theorem (all histories of add/load/get/need_calibration on two recipe managers, all models, matchers, '
                  'statistics): equal flattened rule lists give equal results of the WHOLE modelled pipeline (plan with '
                  'buffer-sharing check, instructions, transformed graph) - same model or same exception; queries leave the '
                  'manager unchanged; a witness shows plan generation writes its working store (why the code must copy the '
                  'caller\'s dict). Tie: correspondence P compares the caller\'s statistics dict before/after and the model\'s '
                  'private store; I/T/E the graph; the C14 oracle deep-compares every caller-owned object around every API call '
                  'and compares output hashes across histories, Quantizer objects, fresh processes and hash seeds.'),
        'note': ('Hidden state / nondeterminism of the implementation can only be observed, not proved absent. '
                 'Axioms: none.'),
    },
    'C16': {
        'level': ('Theorems over ALL constant maps (any number of buffers, any sizes incl. 0 and 1, buffers without data) and all '
                  'pairs of encoded flatbuffers of equal padded length: every external region is 16-byte aligned, inside the '
                  'file, after the flatbuffer, in buffer order and disjoint; buffers without data get none; each '
                  '(offset, size) selects exactly the bytes the ordinary path embeds; the file ends aligned. Tie: body-shape / '
                  'constant pins regenerated from model_modifier.py + correspondence S (offset table and file length vs the '
                  'model, through the guarded hook) + a byte-level oracle against the ordinary serialisation incl. re-read '
                  'equality of all other fields and identical interpreter outputs. A genuine defect (empty constant) was '
                  'found by the first run and repaired (fix: commit, finding F19).'),
        'note': ('Runtime assumption: encoded length independent of non-default offset/size values; checked per case. '
                 'Axioms: none.'),
    },
    'C18': {
        'level': ('Theorems (any value type, any name lists): the pop-based filing returns four groups that are a PERMUTATION '
                  'of the compared-name dict - every name exactly once, under exactly one group, with its own value - whose '
                  'first three groups list exactly the input / output / constant names; it succeeds whenever the role names '
                  'are distinct and present and raises KeyError when one is missing; MSE >= 0, = 0 on equal arguments, '
                  'symmetric; the ratio term >= 0, = 0 on equal arguments and provably NOT symmetric (Reals); the '
                  'aggregation loop of compare_model hands to the reduction, for every name and ANY number of test inputs, '
                  'exactly one value per input that lists the name, in input order. Tie: '
                  'correspondence V runs add_new_signature_results against the model on real and adversarial dicts and '
                  'compare_model with compare_fn = 2^(input index) against the model\'s aggregate (1-6 inputs); the '
                  'oracle recomputes every value validate()/compare_model() report from its own interpreter runs.'),
        'note': ('Interpreter tensor contents are runtime; float32 reductions compared within rtol 1e-4, not bit-exactly. '
                 'Axioms: Reals axioms for the metric laws only.'),
    },
    'C06': {
        'level': ('Theorem, for EVERY kernel semantics K (any function of op code, options and operand values) in which '
                  'DEQUANTIZE maps a stored constant to its dequantized value, every well-formed subgraph and every constant '
                  'whose readers are the listed consumers: the graph produced by the performer model\'s DEQUANTIZE insertion '
                  'computes, on every original tensor, exactly what the ORIGINAL graph computes with the constant replaced by '
                  'its dequantized value (induction over the op list; abstract statement + instance on insert_common); '
                  'weight-only / fp16 configs plan exactly that transformation (regenerated decision function). Dynamic '
                  'range: PARTIAL - meaning preserved under an idealised hybrid-kernel hypothesis; the runtime\'s 8-bit '
                  'activation quantization is bounded analytically and validated by op-level execution. Tie: I/T/E + a '
                  'runtime oracle with an own decoder.'),
        'note': ('Kernel numerics are runtime (validated, not proved). Known finding F20: dynamic-range depthwise conv with '
                 'per-tensor weights is garbage at runtime. Axioms: none.'),
    },
    'C07': {
        'level': ('PARTIAL proof + runtime validation. Proved (all ranges, widths >= 2, both symmetries, Reals): every value '
                  'inside the calibrated range is reproduced within half a step (nothing in range is clipped); unclipped '
                  'values get codes at least (y-x)/scale - 1 apart (parameters cannot collapse an output); scale > 0 and '
                  'zero exact; the fixed softmax/logistic/tanh ranges cover the codomain up to one step. NOT provable here: '
                  'the numerics of LiteRT\'s integer kernels - validated by executing float and quantized model on the '
                  'calibration input, op by op, with root-cause keys (first deviating op). That validation found a genuine '
                  'defect (F21: static BATCH_MATMUL with a constant operand under per-channel weights yields all zeros - this '
                  'includes the shipped a8w8/a16w8 recipes).'),
        'note': ('Kernel numerics are runtime. Axioms: Reals axioms via Flocq.'),
    },
}
