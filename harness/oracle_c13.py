"""Runtime step of C13 (direct oracle; also the failing-input search when the
finite-domain theorem or the lattice correspondence breaks): for EVERY
(algorithm, operator, config) the implementation accepts on the C13 lattice,
a single-op float model containing that operator is quantized through the
public API (calibrated when needed) and the result is prepared and invoked by
the LiteRT interpreter in a forked child; outputs must be finite.  A pair
that is accepted and then fails is a violation keyed by (op, mode).

argv: out.json"""
import collections
import copy
import json
import os
import random
import sys
import time

sys.path.insert(0, os.path.dirname(os.path.abspath(__file__)))
from absl import logging as _l
_l.set_verbosity(_l.ERROR)

import numpy as np
from ai_edge_quantizer import quantizer
import gen_graph as gg
import gen_recipe as gr
import oracle_graph as og
import corr_graph as cg
import corr_lattice as cl
import oracle_c06 as o6
import oracle_c07 as o7

GEN_NAME = {'CONV_2D_TRANSPOSE': 'TRANSPOSE_CONV'}


def mode_name(cfg):
  prec = str(getattr(cfg.compute_precision, 'value', cfg.compute_precision))
  w = cfg.weight_tensor_config
  if w is not None and str(getattr(w.dtype, 'value', w.dtype)) == 'FLOAT':
    return 'fp16'
  if prec == 'INTEGER':
    a = cfg.activation_tensor_config
    return (f'static_a{a.num_bits}{"s" if a.symmetric else "a"}' if a is not None else 'dynamic') + f'_w{w.num_bits}'
  return f'weightonly_w{w.num_bits}'


def single_op_model(rng, opname):
  """a small float model that contains the operator (INPUT/OUTPUT: a TANH)"""
  kind = GEN_NAME.get(opname, opname)
  if opname in ('INPUT', 'OUTPUT'):
    kind = 'TANH'
  for attempt in range(12):
    mb = gg.ModelBuilder(rng, name_style=0)
    # ops that need a positive operand (RSQRT) get a LOGISTIC in front
    pre = attempt >= 6
    gb = gg.gen_subgraph(mb, 0, 'serving_default', 2 if pre else 1,
                         op_weights=(['LOGISTIC', kind] if pre else [kind]),
                         want4d=(attempt % 2 == 0))
    m = mb.m
    codes = [m.operatorCodes[o.opcodeIndex].builtinCode for o in m.subgraphs[0].operators]
    want = getattr(gg.B, kind)
    if want in codes:
      if opname == 'BATCH_MATMUL':
        # the weight-like operand must be a constant (the case the weight config applies to)
        o = [x for x in m.subgraphs[0].operators if m.operatorCodes[x.opcodeIndex].builtinCode == want][0]
        b = m.buffers[m.subgraphs[0].tensors[int(o.inputs[1])].buffer]
        if b.data is None or len(b.data) == 0:
          continue
      return mb.finish()
  return None


def chained_model(rng, opname):
  """TANH -> op: the operator reads a tensor whose statistics are OVERRIDDEN at
  materialisation (tanh's output is pinned to the kernel's fixed range, far from
  the observed one on small inputs).  An operator whose integer kernel relies on
  a relation between its operands' parameters (same scale, ...) is only sound
  if the quantizer establishes that relation from the overridden statistics."""
  kind = GEN_NAME.get(opname, opname)
  if opname in ('INPUT', 'OUTPUT', 'TANH'):
    return None
  want = getattr(gg.B, kind)
  for attempt in range(24):
    mb = gg.ModelBuilder(rng, name_style=0)
    gg.gen_subgraph(mb, 0, 'serving_default', 2, op_weights=['TANH', kind], want4d=(attempt % 2 == 0))
    m = mb.m
    ops = m.subgraphs[0].operators
    if len(ops) != 2:
      continue
    codes = [m.operatorCodes[o.opcodeIndex].builtinCode for o in ops]
    if codes[0] != gg.B.TANH or codes[1] != want or int(ops[0].outputs[0]) not in [int(x) for x in ops[1].inputs]:
      continue
    return mb.finish()
  return None


def main():
  gg.CONST_KINDS = ['normal'] * 6 + ['pos', 'neg']     # well-conditioned constants (see oracle_c07)
  out_path = sys.argv[1]
  tier = os.environ.get('VERIF_TIER', 'quick')
  seed = int(os.environ.get('VERIF_SEED', '0'))
  rng = random.Random(seed * 32416190071 % (2 ** 31) + 31)
  t0 = time.time()
  viol = []
  dist = collections.Counter()
  nontrivial = set()
  samples = []
  # accepted lattice points, deduplicated by (alg, op, mode incl. symmetry/granularity)
  accepted = collections.OrderedDict()
  for alg, op, a, w, p, e in cl.lattice():
    c, cfg = cl.classify(alg, op, a, w, p, e)
    if c != 2:
      continue
    wt = cfg.weight_tensor_config
    key = (alg, op.value, mode_name(cfg), bool(wt.symmetric),
           str(getattr(wt.granularity, 'value', wt.granularity)))
    accepted.setdefault(key, cfg)
  reps = 6 if tier == 'thorough' else 2
  models = {}
  for (alg, opn, mode, wsym, gran), cfg in accepted.items():
    # static modes get one more model: the operator behind a TANH quantized with the same config
    for rep in list(range(reps)) + (['ctx'] if mode.startswith('static') else []):
      if (opn, rep) not in models:
        models[(opn, rep)] = chained_model(rng, opn) if rep == 'ctx' else single_op_model(rng, opn)
      mb = models[(opn, rep)]
      if mb is None:
        dist[('no_context_model_for:' if rep == 'ctx' else 'no_model_for:') + opn] += 1
        continue
      dist['pairs'] += 1
      inp = {'algorithm': alg, 'op': opn, 'mode': mode, 'weight_symmetric': wsym, 'granularity': gran,
             'model_hex': mb.hex() if len(mb) < 30000 else None}
      qt = quantizer.Quantizer(bytearray(mb))
      if rep == 'ctx':
        try:
          qt.update_quantization_recipe('.*', 'TANH', copy.deepcopy(cfg), alg)
          inp['context'] = 'TANH (same config) feeds the operator; inputs of magnitude 0.1'
          dist['pairs_behind_pinned_tanh'] += 1
        except Exception:  # pylint: disable=broad-except
          dist['pairs'] -= 1
          continue                 # the config is not accepted for TANH: no such context
      try:
        qt.update_quantization_recipe('.*', opn, copy.deepcopy(cfg), alg)
      except Exception as e:  # pylint: disable=broad-except
        viol.append({'key': f'C13:lattice-accepts-update-refuses:{opn}:{mode}', 'what':
                     f'check_op_quantization_config accepts but update_quantization_recipe raises '
                     f'{type(e).__name__}: {str(e)[:120]}', 'input': inp})
        continue
      data = gg.random_inputs(mb, rng, 1, scale=0.1 if rep == 'ctx' else 1.0)
      try:
        stats = None
        if qt.need_calibration:
          for k, smp in data.items():
            stats = qt.calibrate(smp, k, previous_calibration_result=stats)
        out = qt.quantize(stats).quantized_model
      except Exception as e:  # pylint: disable=broad-except
        kind = cg.classify_raise(e, og.read(mb))
        viol.append({'key': f'C13:accepted-pair-quantize-raises:{opn}:{mode}', 'what':
                     f'{alg} {opn} {mode} ({gran}) accepted, then quantize() raises {type(e).__name__}: '
                     f'{str(e)[:160]}', 'input': inp})
        continue
      feed = {k: v[0] for k, v in data.items()}
      r = og.run_interpreter(out, feed)
      if r[0] != 'ok':
        viol.append({'key': f'C13:accepted-pair-fails-at-runtime:{opn}:{mode}', 'what':
                     f'{alg} {opn} {mode} ({gran}, weights {"symmetric" if wsym else "asymmetric"}) is accepted '
                     f'but the interpreter fails: {str(r[1])[:200]}', 'input': inp})
        continue
      fin = all(np.all(np.isfinite(v)) for o in r[1].values() for v in o.values())
      if not fin:
        viol.append({'key': f'C13:accepted-pair-nonfinite:{opn}:{mode}', 'what':
                     f'{alg} {opn} {mode}: non-finite outputs', 'input': inp})
        continue
      # outputs track the float model: float-compute modes are checked with
      # C06's op-level comparison (exact up to float32 rounding for
      # weight-only / fp16, analytic bound for dynamic range)
      if not mode.startswith('static'):
        v6, _ = o6.check_case(qt, mb, out, feed, inp, collections.Counter(), [])
        if v6:
          viol.append({'key': f'C13:accepted-pair-wrong-output:{opn}:{mode}:{gran}', 'what':
                       f'{alg} {opn} {mode} ({gran}) is accepted but the result does not track the float '
                       f'model: {v6[0]["what"][:200]}', 'input': inp})
          continue
      else:
        # static range: C07's comparison with the float model on the calibration input
        # 4-bit weights: the weight rounding noise alone (step = max|w|/7) reaches tens of percent of the
        # output magnitude over a few dozen taps; only gross failures are reported for them
        v7 = o7.check_case(qt, mb, out, feed, inp, collections.Counter(), [], set(),
                           fraction=0.6 if mode.endswith('_w4') else None)
        if v7:
          viol.append({'key': f'C13:accepted-pair-wrong-output:{opn}:{mode}:{gran}', 'what':
                       f'{alg} {opn} {mode} ({gran}) is accepted but the result does not track the float '
                       f'model: {v7[0]["what"][:200]}', 'input': inp})
          continue
      dist['ran_ok'] += 1
      nontrivial.add((alg, opn, mode, wsym, gran))
      if len(samples) < 4:
        samples.append({'algorithm': alg, 'op': opn, 'mode': mode, 'granularity': gran})
  out = {
      'interface': 'oracle:C13-runtime', 'evaluations': dist['pairs'],
      'distinct_nontrivial': len(nontrivial), 'n_mismatches': 0, 'mismatches': [],
      'oracle_violations': cg.dedup(viol, 2),
      'violation_counts': dict(collections.Counter(v['key'] for v in viol)),
      'distribution': dict(dist), 'accepted_classes': len(accepted), 'samples': samples,
      'exhaustive': True, 'wall_s': time.time() - t0,
  }
  with open(out_path, 'w') as f:
    json.dump(out, f, indent=1, default=str)
  print(f'oracle C13 runtime: {dist["pairs"]} accepted (op, config) pairs, {dist["ran_ok"]} ran, violations '
        f'{dict(collections.Counter(v["key"] for v in viol))}, {time.time() - t0:.0f}s')


if __name__ == '__main__':
  main()
