#!/usr/bin/env python3
"""Driver: ./check <Cxx> [--tier quick|thorough] [--replay file]

Steps (DESIGN §1): regenerate Gen/ from /repo, build the Coq development
(full .vo), audit for forbidden constructs, recompile Props/Cxx.v capturing
Print Assumptions, run the property's harness steps against /repo, decide,
write evidence/<id>.json.  Exit 0 iff no unlisted violation.
"""
import argparse
import fcntl
import glob
import json
import os
import re
import subprocess
import sys
import time

VERIF = os.path.dirname(os.path.dirname(os.path.abspath(__file__)))
COQ = os.path.join(VERIF, 'coq')
REPO = os.environ.get('VERIF_REPO', '/repo')
PY = '/venv/bin/python'

sys.path.insert(0, os.path.join(VERIF, 'harness'))
import props_table  # noqa: E402

STD_AXIOMS = {
    'ClassicalDedekindReals.sig_not_dec', 'ClassicalDedekindReals.sig_forall_dec',
    'FunctionalExtensionality.functional_extensionality_dep',
    'Classical_Prop.classic', 'functional_extensionality_dep', 'classic',
    'sig_not_dec', 'sig_forall_dec', 'Eqdep.Eq_rect_eq.eq_rect_eq',
    'JMeq.JMeq_eq', 'ProofIrrelevance.proof_irrelevance',
}
FORBIDDEN = re.compile(
    r'\b(Admitted|admit|Axiom|Axioms|Parameter|Parameters|Conjecture|'
    r'Hypothesis|Hypotheses|Variable|Variables)\b|Unset\s+Guard|bypass_check|'
    r'type-in-type|impredicative-set|Admit\s+Obligations|Unset\s+Universe|'
    r'Unset\s+Positivity|native_compute')


def sh(cmd, timeout=None, env=None, cwd=None):
  p = subprocess.run(cmd, shell=isinstance(cmd, str), capture_output=True,
                     text=True, timeout=timeout, env=env, cwd=cwd)
  return p.returncode, p.stdout, p.stderr


def regen():
  rc, out, err = sh(['python3', os.path.join(VERIF, 'tools/py2v/py2v.py'),
                     REPO, os.path.join(COQ, 'Gen')], timeout=120)
  return rc == 0, (out + err).strip()


def strip_comments(text):
  out = []
  depth = 0
  i = 0
  while i < len(text):
    if text.startswith('(*', i):
      depth += 1
      i += 2
    elif text.startswith('*)', i) and depth:
      depth -= 1
      i += 2
    else:
      if not depth:
        out.append(text[i])
      i += 1
  return ''.join(out)


def audit_sources():
  """Forbidden constructs anywhere in the development.  Section-local
  Variable/Hypothesis/Context are allowed only inside a Section."""
  bad = []
  for path in sorted(glob.glob(os.path.join(COQ, '**', '*.v'), recursive=True)):
    text = strip_comments(open(path).read())
    depth = 0
    for ln, line in enumerate(text.split('\n'), 1):
      if re.match(r'\s*Section\b', line):
        depth += 1
      if re.match(r'\s*End\b', line) and depth:
        depth -= 1
      for m in FORBIDDEN.finditer(line):
        w = m.group(0)
        if w in ('Variable', 'Variables', 'Hypothesis', 'Hypotheses') and depth:
          continue
        bad.append(f'{os.path.relpath(path, COQ)}:{ln}: {w}')
  return bad


def build(target_props, clean=False):
  """Full .vo build of everything the property's Props file needs."""
  lock = open(os.path.join(COQ, '.build.lock'), 'w')
  fcntl.flock(lock, fcntl.LOCK_EX)
  try:
    log = []
    if clean and os.path.exists(os.path.join(COQ, 'Makefile')):
      sh('make clean', cwd=COQ, timeout=300)
    rc, out, err = sh('coq_makefile -f _CoqProject -o Makefile', cwd=COQ,
                      timeout=120)
    if rc:
      return False, out + err, ''
    # models first (proof-free files): they must be runnable by the
    # correspondence / search steps even when a proof no longer checks
    models = sorted(os.path.relpath(p, COQ)[:-2] + '.vo' for p in
                    glob.glob(os.path.join(COQ, 'Gen', '*.v')) +
                    glob.glob(os.path.join(COQ, 'Model', '*.v')) +
                    glob.glob(os.path.join(COQ, 'Spec', '*.v')))
    sh(['timeout', '1500', 'make', '-k', '-j12'] + models, cwd=COQ, timeout=1600)
    deps = [f'Props/{target_props}.vo']
    rc, out, err = sh(['timeout', '1500', 'make', '-j12'] + deps, cwd=COQ,
                      timeout=1600)
    log.append(out[-3000:] + err[-6000:])
    if rc:
      return False, '\n'.join(log), ''
    # recompile the property file itself to capture Print Assumptions
    rc, out, err = sh(['timeout', '900', 'coqc', '-Q', '.', 'VF', '-w', '-all',
                       f'Props/{target_props}.v'], cwd=COQ, timeout=1000)
    if rc:
      return False, out[-3000:] + err[-6000:], ''
    return True, '\n'.join(log), out
  finally:
    fcntl.flock(lock, fcntl.LOCK_UN)
    lock.close()


def parse_props(name, pa_output):
  """Theorem names of Props/<name>.v and the axioms each depends on."""
  text = strip_comments(open(os.path.join(COQ, 'Props', name + '.v')).read())
  thms = re.findall(r'\b(?:Theorem|Example|Lemma|Corollary)\s+(\w+)', text)
  printed = re.findall(r'Print Assumptions\s+(\w+)\s*\.', text)
  blocks = []
  cur = None
  for line in pa_output.split('\n'):
    if line.startswith('Closed under the global context'):
      blocks.append([])
      cur = None
    elif line.startswith('Axioms:'):
      cur = []
      blocks.append(cur)
    elif cur is not None:
      # an axiom entry starts in column 0 (its type may continue on indented lines)
      m = re.match(r'^([A-Za-z_][\w.\']*)\s*(:.*)?$', line)
      if m:
        cur.append(m.group(1))
      elif line and not line[0].isspace():
        cur = None
  axioms = {}
  for i, t in enumerate(printed):
    axioms[t] = blocks[i] if i < len(blocks) else None
  return thms, printed, axioms


def run_step(step, tier, seed, scratch_json, pid=''):
  env = dict(os.environ)
  env['VERIF_PROP'] = pid
  env.update({'PYTHONPATH': REPO, 'PYTHONHASHSEED': env.get('PYTHONHASHSEED', '0'),
              'TF_CPP_MIN_LOG_LEVEL': '3', 'VERIF_TIER': tier,
              'VERIF_SEED': str(seed), 'CUDA_VISIBLE_DEVICES': '',
              'AI_EDGE_QUANTIZER_VERIF': '1'})
  script = os.path.join(VERIF, 'harness', step['script'])
  args = [PY, script, scratch_json] + step.get('args', [])
  tmo = step.get('timeout_thorough' if tier == 'thorough' else 'timeout', 1500)
  try:
    p = subprocess.run(args, capture_output=True, text=True, timeout=tmo,
                       env=env, cwd=VERIF)
  except subprocess.TimeoutExpired:
    return None, f'{step["script"]}: timeout after {tmo}s'
  if p.returncode != 0 or not os.path.exists(scratch_json):
    return None, (f'{step["script"]}: exit {p.returncode}\n'
                  f'{p.stdout[-2000:]}\n{p.stderr[-4000:]}')
  with open(scratch_json) as f:
    return json.load(f), p.stdout[-2000:]


def load_known():
  with open(os.path.join(VERIF, 'KNOWN_FINDINGS.json')) as f:
    return json.load(f)


def main():
  ap = argparse.ArgumentParser()
  ap.add_argument('prop')
  ap.add_argument('--tier', default=os.environ.get('VERIF_TIER', 'quick'))
  ap.add_argument('--replay')
  a = ap.parse_args()
  pid = a.prop
  tier = a.tier if a.tier in ('quick', 'thorough') else 'quick'
  seed = int(os.environ.get('VERIF_SEED', '0'))
  spec = props_table.PROPS[pid]
  t0 = time.time()
  os.makedirs(os.path.join(VERIF, 'evidence'), exist_ok=True)
  os.makedirs(os.path.join(VERIF, 'replays'), exist_ok=True)
  broken = []          # obligations / correspondences that no longer check
  notes = []

  ok, msg = regen()
  if not ok:
    broken.append({'what': 'translator', 'detail': msg[-1500:]})
  bad = audit_sources()
  if bad:
    broken.append({'what': 'forbidden-construct', 'detail': bad[:20]})
  thms, printed, axioms = [], [], {}
  pa = ''
  if ok:
    bok, blog, pa = build(pid, clean=(tier == 'thorough' and
                                      os.environ.get('VERIF_NOCLEAN') != '1'))
    if not bok:
      broken.append({'what': f'coq-build Props/{pid}.v', 'detail': blog[-3000:]})
    else:
      thms, printed, axioms = parse_props(pid, pa)
      for t in thms:
        if t not in printed and not t.endswith('_nonvacuous'):
          notes.append(f'theorem {t} has no Print Assumptions')
      for t, ax in axioms.items():
        if ax is None:
          broken.append({'what': f'assumptions of {t} not reported', 'detail': ''})
        else:
          extra = [x for x in ax if x not in STD_AXIOMS and
                   x.split('.')[-1] not in STD_AXIOMS]
          if extra:
            broken.append({'what': f'theorem {t} depends on non-standard axioms',
                           'detail': extra})
      missing = [t for t in spec.get('required_theorems', []) if t not in thms]
      if missing:
        broken.append({'what': 'required theorems missing from Props file',
                       'detail': missing})
  coqchk = None
  if tier == 'thorough' and ok and not broken and os.environ.get(
      'VERIF_NOCOQCHK') != '1':
    rc, out, err = sh(['timeout', '1500', 'coqchk', '-silent', '-o', '-Q', '.',
                       'VF', f'VF.Props.{pid}'], cwd=COQ, timeout=1600)
    coqchk = {'rc': rc, 'tail': (out + err)[-1500:]}
    if rc != 0:
      broken.append({'what': 'coqchk', 'detail': coqchk['tail']})

  # harness steps
  results = []
  violations = []      # direct-oracle failures: {key, what, input}
  evaluations = 0
  nontrivial = 0
  samples = []
  interfaces = []
  for i, step in enumerate(spec['steps']):
    if step.get('tier') == 'thorough' and tier != 'thorough':
      continue
    if a.replay:
      step = dict(step)
      step['args'] = step.get('args', []) + ['--replay', a.replay]
    out_json = os.path.join(VERIF, 'replays', f'.{pid}_{i}_{os.getpid()}.json')
    res, log = run_step(step, tier, seed, out_json, pid)
    if os.path.exists(out_json):
      os.remove(out_json)
    if res is None:
      broken.append({'what': f'harness {step["script"]} failed', 'detail': log})
      continue
    results.append(res)
    interfaces.append(res.get('interface', step['script']))
    evaluations += res.get('evaluations', 0)
    nontrivial += res.get('distinct_nontrivial', 0)
    samples += res.get('samples', [])[:3]
    if res.get('n_mismatches', 0):
      broken.append({'what': f'correspondence {res.get("interface")} '
                             f'({step["script"]})',
                     'detail': res.get('mismatches', [])[:3],
                     'count': res['n_mismatches']})
    for v in res.get('oracle_violations', []):
      # a harness step may serve several properties: keys are 'Cxx:...'
      if v.get('key', '').startswith(pid + ':'):
        violations.append(v)

  known = load_known()
  open_known = [k for k in known if k['property'] == pid and
                k['status'] == 'open']
  unlisted = []
  reproduced = {}
  for v in violations:
    hit = [k for k in open_known if k['key'] == v.get('key')]
    if hit:
      reproduced.setdefault(hit[0]['id'], (hit[0], v))
    else:
      unlisted.append(v)
  # refuted-theorem witnesses whose finding is known but did not reproduce
  for k, (kf, v) in sorted(reproduced.items()):
    print(f'KNOWN-FINDING: property={pid} {kf["id"]} {kf["what"]}')

  # ---- search phase: a proof obligation or a correspondence no longer checks but no
  # oracle has produced a failing input yet: look for one with further generator seeds
  # (never runs on a tree where everything checks) ----
  search = {'rounds': 0, 'found': False}
  if broken and not unlisted and not a.replay and any(
      'harness' not in b['what'] or True for b in broken):
    rounds = int(os.environ.get('VERIF_SEARCH_ROUNDS', '3'))
    for extra in range(1, rounds + 1):
      s2 = seed + 7919 * extra
      search['rounds'] = extra
      for i, step in enumerate(spec['steps']):
        if step.get('tier') == 'thorough' and tier != 'thorough':
          continue
        out_json = os.path.join(VERIF, 'replays', f'.{pid}_s{extra}_{i}_{os.getpid()}.json')
        res, log = run_step(step, tier, s2, out_json, pid)
        if os.path.exists(out_json):
          os.remove(out_json)
        if res is None:
          continue
        for v in res.get('oracle_violations', []):
          if v.get('key', '').startswith(pid + ':') and not any(
              k['key'] == v.get('key') for k in open_known):
            unlisted.append(dict(v, found_by=f'search phase, generator seed {s2} '
                                             f'(VERIF_SEED={s2} ./check {pid} replays it)'))
      if unlisted:
        search['found'] = True
        break

  exit_code = 0
  replay_path = None
  if unlisted:
    replay_path = os.path.join(VERIF, 'replays', f'{pid}-{int(time.time())}.json')
    with open(replay_path, 'w') as f:
      json.dump({'property': pid, 'violations': unlisted[:10],
                 'broken_obligations': broken}, f, indent=1, default=str)
    print(f'VIOLATION property={pid} replay={replay_path}')
    exit_code = 1
  elif broken:
    replay_path = os.path.join(VERIF, 'replays', f'{pid}-{int(time.time())}.json')
    with open(replay_path, 'w') as f:
      json.dump({'property': pid, 'no_failing_input_found': True,
                 'broken_obligations': broken}, f, indent=1, default=str)
    print(f'VIOLATION property={pid} replay={replay_path} '
          'no-failing-input-found')
    exit_code = 1

  n_obl = len(thms) + len(interfaces)
  n_dis = (len(thms) if not any('coq-build' in b['what'] or 'axiom' in
                                b['what'] for b in broken) else 0) + sum(
      1 for r in results if not r.get('n_mismatches', 0))
  ev = {
      'property_id': pid, 'tier': tier, 'seed': seed, 'level': 'proof',
      'coverage': {
          'obligations': max(n_obl, 1), 'discharged': n_dis,
          'checker_cmd': (f'coq_makefile -f _CoqProject -o Makefile && make '
                          f'Props/{pid}.vo && coqc Props/{pid}.v  (Coq 8.16.1'
                          + ('; coqchk -o' if coqchk else '') + ')'),
          'trusted_base': spec['trusted_base'],
          'theorems': thms, 'axioms_per_theorem': axioms,
          'partial_or_refuted': [t for t in thms if t.endswith('_partial') or
                                 t.endswith('_refuted')],
          'correspondence_interfaces': interfaces,
          'traces_validated_against_impl': evaluations,
          'evaluations': evaluations, 'distinct_nontrivial': nontrivial,
          'rule': spec['rule'], 'samples': samples[:6],
          'step_results': [{k: v for k, v in r.items() if k not in
                            ('mismatches', 'samples', 'oracle_violations')}
                           for r in results],
          'broken_obligations': broken,
          'failing_input_search': search,
          'known_findings_reproduced': sorted(reproduced),
          'coqchk': coqchk, 'notes': notes,
      },
      'assumptions': spec['assumptions'],
      'wall_s': round(time.time() - t0, 2),
      'violations': len(unlisted) + (1 if broken and not unlisted else 0),
  }
  with open(os.path.join(VERIF, 'evidence', f'{pid}.json'), 'w') as f:
    json.dump(ev, f, indent=1, default=str)
  print(f'{pid} {tier}: theorems={len(thms)} interfaces={interfaces} '
        f'evaluations={evaluations} broken={len(broken)} '
        f'oracle_violations={len(violations)} (unlisted {len(unlisted)}) '
        f'wall={time.time() - t0:.0f}s')
  sys.exit(exit_code)


if __name__ == '__main__':
  main()
