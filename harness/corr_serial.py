"""Correspondence S + direct oracle for C16: the large-model (external buffer)
serialisation, driven on small models through the verification hook
(AI_EDGE_QUANTIZER_VERIF_LARGE_MODEL_THRESHOLD), against Model/Serial.v and
against the ordinary serialisation of the same quantization.

argv: out.json"""
import collections
import copy
import json
import os
import random
import sys
import time

sys.path.insert(0, os.path.dirname(os.path.abspath(__file__)))
import vlib
from absl import logging as _l
_l.set_verbosity(_l.ERROR)

import numpy as np
from ai_edge_litert import schema_py_generated as S
from ai_edge_quantizer import quantizer
from tensorflow.lite.tools import flatbuffer_utils as FU
import gen_graph as gg
import gen_recipe as gr
import oracle_graph as og
import corr_graph as cg

THR = 'AI_EDGE_QUANTIZER_VERIF_LARGE_MODEL_THRESHOLD'


def pad16(n):
  return n + (16 - n % 16) % 16


def raw_table(b):
  """(offset, size, inline data length) per buffer, read with the raw accessors"""
  m = S.Model.GetRootAs(bytes(b), 0)
  return [(int(m.Buffers(i).Offset()), int(m.Buffers(i).Size()), int(m.Buffers(i).DataLength()))
          for i in range(m.BuffersLength())]


def raw_object(b):
  """object API WITHOUT resolving external buffers (offset/size kept)"""
  return S.ModelT.InitFromObj(S.Model.GetRootAs(bytes(b), 0))


def buf_bytes(b):
  return None if b.data is None else bytes(np.asarray(b.data, dtype=np.uint8).tobytes())


def to_external(mb):
  """the SAME float model in external-buffer form (the form a float model above
  2 GB necessarily has): every non-empty constant moved behind the flatbuffer at
  a 16-aligned offset.  Written here, independently of the library's serialiser."""
  m = og.read(mb)
  datas = {}
  for i, b in enumerate(m.buffers):
    if i and b.data is not None and len(b.data):
      datas[i] = bytes(np.asarray(b.data, dtype=np.uint8).tobytes())
      b.data = None
      b.offset = 2               # any non-default value: fixed-width field
      b.size = len(datas[i])
  fb = bytes(FU.convert_object_to_bytearray(m))
  base = pad16(len(fb))
  off = base
  for i in sorted(datas):
    m.buffers[i].offset = off
    off = pad16(off + len(datas[i]))
  fb2 = bytes(FU.convert_object_to_bytearray(m))
  if len(fb2) != len(fb):
    raise RuntimeError('external form: encodings differ in length')
  out = bytearray(fb2) + bytes(base - len(fb2))
  for i in sorted(datas):
    out += datas[i]
    out += bytes(pad16(len(out)) - len(out))
  return bytes(out)


def quantize_both(mb, setup, stats, prev=None):
  """the same quantization through the ordinary and the large-model path.
  With [prev] (a recipe list), the large-path Quantizer has ALREADY been used:
  it first quantizes with prev (large path too), then the target recipe is
  loaded into the same object and quantized — the serialiser must not carry
  anything over from the earlier call."""
  outs = []
  for thr in (None, '-1'):
    if thr is None:
      os.environ.pop(THR, None)
    else:
      os.environ[THR] = thr
    try:
      qt = quantizer.Quantizer(bytearray(mb))
      if thr is not None and prev is not None:
        probe = quantizer.Quantizer(bytearray(mb))
        setup(probe)
        target = copy.deepcopy(probe.get_quantization_recipe())
        try:
          qt.load_quantization_recipe(copy.deepcopy(prev))
          qt.quantize(None)
        except Exception:  # pylint: disable=broad-except
          pass                   # (a recipe that needs statistics, or is refused: still a used object)
        qt.load_quantization_recipe(target)
      else:
        setup(qt)
      outs.append(qt.quantize(copy.deepcopy(stats)).quantized_model)
    finally:
      os.environ.pop(THR, None)
  return outs


def check_pair(small, large, inputs):
  """oracle: list of (key, message)"""
  bad = []
  m_small = og.read(small)                 # ordinary path: data embedded
  tab = raw_table(large)
  if len(tab) != len(m_small.buffers):
    return [('C16:buffer-count', f'{len(tab)} vs {len(m_small.buffers)}')], None
  regions = []
  for i, ((off, size, dlen), bs) in enumerate(zip(tab, m_small.buffers)):
    want = buf_bytes(bs)
    if want is None:
      if off > 1 or size > 1 or dlen:
        bad.append(('C16:region-for-buffer-without-data', f'buffer {i}: offset {off} size {size}'))
      continue
    if dlen:
      bad.append(('C16:data-still-embedded', f'buffer {i} keeps {dlen} inline bytes'))
    if off % 16:
      bad.append(('C16:offset-misaligned', f'buffer {i}: offset {off}'))
    if size != len(want):
      bad.append(('C16:size-differs', f'buffer {i}: size {size}, ordinary path embeds {len(want)} bytes'))
    if off + size > len(large) or off <= 1 and len(want):
      bad.append(('C16:out-of-bounds', f'buffer {i}: offset {off} size {size}, file has {len(large)} bytes'))
      bad.append(('C05:external-buffer-decodes-wrong', f'buffer {i}: its offset/size ({off}, {size}) run past the '
                  f'file ({len(large)} bytes): the stored constant cannot be decoded'))
    elif bytes(large[off:off + size]) != want:
      bad.append(('C16:bytes-differ', f'buffer {i}: offset {off} size {size} does not select the bytes '
                  'the ordinary path embeds'))
      bad.append(('C05:external-buffer-decodes-wrong', f'buffer {i}: decoding the bytes its offset/size select '
                  'does not give the constant the in-place form stores (C05 holds for that form)'))
    regions.append((off, size, i))
  regions.sort()
  for (o1, s1, i1), (o2, s2, i2) in zip(regions, regions[1:]):
    if o1 + s1 > o2:
      bad.append(('C16:overlap', f'buffers {i1} and {i2}: [{o1},{o1 + s1}) and [{o2},{o2 + s2})'))
  if len(large) % 16:
    bad.append(('C16:file-not-padded', f'file length {len(large)}'))
  # all other fields equal: resolve the external buffers and re-serialise both
  try:
    m_large = FU.read_model_from_bytearray(bytearray(large))
    if bytes(FU.convert_object_to_bytearray(m_large)) != bytes(FU.convert_object_to_bytearray(m_small)):
      bad.append(('C16:other-fields-differ', 'resolved large-path model re-serialises differently '
                  'from the ordinary model'))
  except Exception as e:  # pylint: disable=broad-except
    bad.append(('C16:unreadable', f'{type(e).__name__}: {str(e)[:160]}'))
  # interpreter: both load and compute identical outputs
  if not bad:
    r1 = og.run_interpreter(small, inputs)
    r2 = og.run_interpreter(large, inputs)
    if r1[0] == 'ok' and r2[0] != 'ok':
      bad.append(('C16:interpreter-rejects-large-form', str(r2[1])[:200]))
    elif r1[0] == 'ok' and r2[0] == 'ok':
      same = all(np.array_equal(r1[1][k][n], r2[1][k][n], equal_nan=True)
                 for k in r1[1] for n in r1[1][k])
      if not same:
        # a model whose OWN two runs disagree (F20: the hybrid depthwise kernel on
        # per-tensor weights reads uninitialised data) has no well-defined output
        r1b = og.run_interpreter(small, inputs)
        stable = r1b[0] == 'ok' and all(np.array_equal(r1[1][k][n], r1b[1][k][n], equal_nan=True)
                                        for k in r1[1] for n in r1[1][k])
        if stable:
          bad.append(('C16:interpreter-outputs-differ', 'outputs of the two serialisations differ'))
  # runtime assumption of the theorem: both encodings have the same padded length
  # (the first region starts where the padded pass-2 flatbuffer ends)
  obj = raw_object(large)
  fb2 = pad16(len(FU.convert_object_to_bytearray(obj)))
  fb1 = regions[0][0] if regions else fb2
  info = {'fb1_padded': fb1, 'fb2_padded': fb2,
          'first_offset': regions[0][0] if regions else None,
          'table': [None if buf_bytes(bs) is None else [t[0], t[1]]
                    for t, bs in zip(tab, m_small.buffers)],
          'sizes': [None if buf_bytes(bs) is None else len(buf_bytes(bs)) for bs in m_small.buffers],
          'total': len(large)}
  return bad, info


def tiny_model(rng):
  """FC chains with widths 1..3 (1x1 weights quantize to ONE byte, 2-element
  weights to one int4 byte), optional bias, optionally a concatenation with an
  EMPTY ([b, 0]) float constant: buffers of sizes 0, 1, 2, 3, 4, 6, ..."""
  mb = gg.ModelBuilder(rng, name_style=0)
  gb = gg.GraphBuilder(mb, 0, 'serving_default')
  bsz = rng.choice([1, 2])
  widths = [rng.choice([1, 1, 2, 3]) for _ in range(rng.choice([2, 3, 4]))]
  x = gb.act('serving_default_x', (bsz, widths[0]))
  gb.g.inputs.append(x)
  cur = x
  for i, (a, b) in enumerate(zip(widths, widths[1:])):
    w = gb.fconst(f'serving_default/fc{i}/w', [b, a], kind='normal')
    bias = -1 if rng.random() < 0.5 else gb.fconst(f'serving_default/fc{i}/b', [b], kind='normal')
    out = gb.act(f'serving_default/fc{i}/out', (bsz, b))
    gb.op(gg.B.FULLY_CONNECTED, [cur, w, bias], [out], gg.S.BuiltinOptions.FullyConnectedOptions,
          gb._mk(gg.S.FullyConnectedOptionsT, fusedActivationFunction=0, keepNumDims=False,  # pylint: disable=protected-access
                 weightsFormat=0))
    cur = out
  if rng.random() < 0.5:
    e = gb.tensor('serving_default/empty', [bsz, 0], gg.FLOAT32, np.zeros((bsz, 0), dtype=np.float32))
    out = gb.act('serving_default/cat/out', (bsz, widths[-1]))
    gb.op(gg.B.CONCATENATION, [cur, e], [out], gg.S.BuiltinOptions.ConcatenationOptions,
          gb._mk(gg.S.ConcatenationOptionsT, axis=1, fusedActivationFunction=0))  # pylint: disable=protected-access
    cur = out
  gb.g.outputs = np.array([cur], dtype=np.int32)
  gb.g.inputs = np.array(gb.g.inputs, dtype=np.int32)
  mb.m.subgraphs.append(gb.g)
  sd = gg.S.SignatureDefT()
  sd.signatureKey = b'serving_default'
  sd.subgraphIndex = 0
  sd.inputs, sd.outputs = [], []
  for nm, t in (('x', x),):
    tm = gg.S.TensorMapT(); tm.name = nm.encode(); tm.tensorIndex = int(t); sd.inputs.append(tm)
  tm = gg.S.TensorMapT(); tm.name = b'y'; tm.tensorIndex = int(cur); sd.outputs.append(tm)
  mb.m.signatureDefs.append(sd)
  return mb.finish(), {'n_subgraphs': 1, 'ops': [gb.nops]}


PRELUDE = '''From Coq Require Import ZArith List.
From VF Require Import Model.Serial.
Import ListNotations. Open Scope Z_scope.
Definition run_case (c : Z * list (option Z)) : list Z :=
  let out := serialize_large (zeros (fst c)) (zeros (fst c)) (map (option_map zeros) (snd c)) in
  lenZ (lo_bytes out) ::
  flat_map (fun r => match r with None => [-1; -1] | Some (o, s) => [o; s] end) (lo_table out).
'''


def main():
  out_path = sys.argv[1]
  tier = os.environ.get('VERIF_TIER', 'quick')
  seed = int(os.environ.get('VERIF_SEED', '0'))
  rng = random.Random(seed * 2750159 + 37)
  t0 = time.time()
  n_models = 1500 if tier == 'thorough' else 150
  viol = []
  dist = collections.Counter()
  nontrivial = set()
  samples = []
  cases = []
  k = 0
  ship = gr.shipped()
  # corpus first: minimized earlier failures
  corpus = []
  cdir = os.path.join(vlib.VERIF, 'corpus', 'C16')
  if os.path.isdir(cdir):
    for f in sorted(os.listdir(cdir)):
      c = json.load(open(os.path.join(cdir, f)))
      if c.get('model_hex') and isinstance(c.get('recipe'), list):
        corpus.append((bytes.fromhex(c['model_hex']), [tuple(r) for r in c['recipe']]))
  n_models += len(corpus)
  while k < n_models:
    special = rng.random() < 0.35
    from_corpus = bool(corpus)
    if from_corpus:
      mb, crules = corpus.pop(0)
      info = {}
      dist['corpus'] += 1
    elif special:
      # constants of awkward sizes: 0 / 1 / 2 / 3 bytes after quantization
      mb, info = tiny_model(rng)
      dist['tiny_models'] += 1
    else:
      mb, info = gg.gen_model(rng, max_ops=rng.choice([3, 5, 8]))
    if from_corpus:
      setup = lambda qt, rules=crules: gr.apply_rules(qt, rules)
      desc = [list(r) for r in crules]
    elif rng.random() < 0.5:
      name = rng.choice(gr.DEFAULT_SHIPPED)
      setup = lambda qt, name=name: qt.load_quantization_recipe(copy.deepcopy(ship[name]))
      desc = name
    else:
      rules, fam = gr.gen_rules(rng, mb)
      probe = quantizer.Quantizer(bytearray(mb))
      rules = gr.apply_rules(probe, rules)
      if not rules:
        continue
      setup = lambda qt, rules=rules: gr.apply_rules(qt, rules)
      desc = rules
    k += 1
    probe = quantizer.Quantizer(bytearray(mb))
    setup(probe)
    data = gg.random_inputs(mb, rng, 1)
    stats = gr.own_stats(mb, data) if probe.need_calibration else None
    dist['cases'] += 1
    inp = {'recipe': desc, 'model_hex': mb.hex() if len(mb) < 30000 else None}
    mb_in = mb
    if not from_corpus and rng.random() < 0.3:
      # the float INPUT is itself in external-buffer form (untouched constants reach
      # the serialiser as raw bytes, not numpy arrays)
      try:
        mb_in = to_external(mb)
        dist['external_form_input'] += 1
        inp = dict(inp, input_form='external (corr_serial.to_external of model_hex)')
      except Exception:  # pylint: disable=broad-except
        mb_in = mb
    try:
      prev = None
      if rng.random() < 0.4:       # the large-path Quantizer was used before, with another float recipe
        prev = copy.deepcopy(ship[rng.choice(['dynamic_wi8_afp32_recipe', 'default_af32w8float_recipe',
                                               'default_af32w4float_recipe'])])
        dist['reused_quantizer'] += 1
      small, large = quantize_both(mb_in, setup, stats, prev)
    except Exception as e:  # pylint: disable=broad-except
      dist['quantize_raises:' + cg.classify_raise(e)] += 1
      continue
    if bytes(small) == bytes(large):
      dist['identical_bytes'] += 1      # possible only for a model without constant data
    else:
      dist['large_path_taken'] += 1
    feed = {key: v[0] for key, v in data.items()}
    try:
      bad, info = check_pair(small, large, feed)
    except Exception as e:  # pylint: disable=broad-except
      import traceback
      bad, info = [('HARNESS:error', traceback.format_exc()[-500:])], None
    for key, msg in bad[:6]:
      viol.append({'key': key, 'what': msg, 'input': inp})
    dist['returned'] += 1
    if info:
      dist[f'buffers_with_data={min(9, sum(1 for s in info["sizes"] if s is not None))}+' if
           sum(1 for s in info['sizes'] if s is not None) >= 9 else
           f'buffers_with_data={sum(1 for s in info["sizes"] if s is not None)}'] += 1
      for sz in info['sizes']:
        if sz is not None:
          dist['size%16==0' if sz % 16 == 0 else ('size==1' if sz == 1 else ('size==0' if sz == 0 else 'size_other'))] += 1
      if info['first_offset'] is not None and info['first_offset'] != info['fb2_padded']:
        viol.append({'key': 'C16:encoded-length-depends-on-offsets', 'what':
                     f'first external region starts at {info["first_offset"]} but the padded flatbuffer of the '
                     f'final file is {info["fb2_padded"]} bytes long (pass 1 and pass 2 encodings differ in length)',
                     'input': inp})
      start = info['first_offset'] if info['first_offset'] is not None else info['total']
      lit = f'({start}, {vlib.coq_list(["None" if s is None else f"(Some {s})" for s in info["sizes"]])})'
      exp = [info['total']] + [x for t in info['table'] for x in ([-1, -1] if t is None else t)]
      cases.append((lit, exp, desc))
      nontrivial.add(json.dumps(info['table']))
      if len(samples) < 3:
        samples.append({'recipe': desc, 'table': info['table'][:8], 'total': info['total']})
  if dist['cases'] and not dist['large_path_taken']:
    viol.append({'key': 'HARNESS:hook-inactive', 'what': 'threshold hook never selected the large-model path'})
  # ---- model side ----
  mism = []
  if cases:
    shards = vlib.shard(list(range(len(cases))), 100)
    files = [(f'serial_{si}', PRELUDE + 'Definition cases : list (Z * list (option Z)) := [\n' +
              ';\n'.join(cases[i][0] for i in idxs) + '\n].\nEval vm_compute in (map run_case cases).\n')
             for si, idxs in enumerate(shards)]
    results = vlib.run_case_files(files, jobs=8, timeout=900)
    for si, idxs in enumerate(shards):
      got = results[f'serial_{si}']
      for j, i in enumerate(idxs):
        if got[j] != cases[i][1]:
          mism.append({'case': i, 'recipe': cases[i][2], 'model': got[j][:12], 'impl': cases[i][1][:12]})
  harness_err = [v for v in viol if v['key'].startswith('HARNESS')]
  out = {
      'interface': 'S', 'evaluations': dist['cases'],
      'distinct_nontrivial': len(nontrivial),
      'n_mismatches': len(mism) + len(harness_err), 'mismatches': (mism + harness_err)[:10],
      'oracle_violations': cg.dedup([v for v in viol if not v['key'].startswith('HARNESS')], 2),
      'violation_counts': dict(collections.Counter(v['key'] for v in viol)),
      'distribution': dict(dist), 'samples': samples, 'wall_s': time.time() - t0,
  }
  with open(out_path, 'w') as f:
    json.dump(out, f, indent=1, default=str)
  print(f'corr S: {dist["cases"]} cases, {len(mism)} mismatches, violations '
        f'{dict(collections.Counter(v["key"] for v in viol))}, {time.time() - t0:.0f}s')


if __name__ == '__main__':
  main()
