"""C12: recipe save/reload round trip — direct oracle on the implementation,
plus correspondence F (shipped recipe files: implementation vs Gen/Recipes.v
through Model/RecipeFile.v)."""
import glob
import json
import os
import random
import sys
import time

sys.path.insert(0, os.path.dirname(os.path.abspath(__file__)))
import vlib
import corr_recipe as cr
from ai_edge_quantizer import algorithm_manager
from ai_edge_quantizer import recipe as recipe_helpers
from ai_edge_quantizer import recipe_manager
from ai_edge_quantizer import qtyping

RECIPE_DIR = os.path.join(os.path.dirname(recipe_manager.__file__), 'recipes')
PAIRS = [(o, s) for o in ('FULLY_CONNECTED', 'CONV_2D', 'ADD', 'EMBEDDING_LOOKUP',
                          'SOFTMAX') for s in cr.RICH_SCOPES]


def norm(recipe):
  return json.loads(json.dumps(recipe))


def classify_rule(r):
  """Which guard of C12_roundtrip_partial the rule violates (None = none)."""
  if r['algorithm_key'] == 'no_quantize':
    if r['op_config'] != qtyping.OpQuantizationConfig().to_dict():
      return 'C12:noquant-config-dropped'
    return None
  if 'weight_tensor_config' not in r['op_config']:
    return 'C12:missing-weight-config'
  return None


def roundtrip(rm, desc):
  r1 = norm(rm.get_quantization_recipe())
  new = recipe_manager.RecipeManager()
  guards = sorted(set(filter(None, (classify_rule(r) for r in r1))))
  try:
    new.load_quantization_recipe(r1)
  except Exception as e:  # pylint: disable=broad-except
    key = (guards[0] if guards and type(e).__name__ == 'KeyError' and
           'C12:missing-weight-config' in guards else 'C12:reload-raises')
    if 'C12:missing-weight-config' in guards and type(e).__name__ == 'KeyError':
      key = 'C12:missing-weight-config'
    return {'key': key, 'what': f'reload raises {type(e).__name__}: {e}',
            'input': desc, 'recipe': r1}
  r2 = norm(new.get_quantization_recipe())
  found = None
  if r2 != r1:
    # is the only difference the dropped config of no_quantize rules?
    same_shape = len(r1) == len(r2) and all(
        a['regex'] == b['regex'] and a['operation'] == b['operation'] and
        a['algorithm_key'] == b['algorithm_key'] and
        (a['op_config'] == b['op_config'] or a['algorithm_key'] == 'no_quantize')
        for a, b in zip(r1, r2))
    key = ('C12:noquant-config-dropped' if same_shape and
           'C12:noquant-config-dropped' in guards else 'C12:reload-differs')
    found = {'key': key, 'what': 'reloaded recipe differs from the saved one',
             'input': desc, 'recipe': r1, 'reloaded': r2}
    if key != 'C12:noquant-config-dropped':
      return found
  # resolution is compared even when only a no_quantize rule's (unused)
  # config was dropped: that known difference must not hide a different one
  for op, sc in PAIRS:
    a1, c1 = rm.get_quantization_configs(op, sc)
    a2, c2 = new.get_quantization_configs(op, sc)
    a1v, a2v = getattr(a1, 'value', a1), getattr(a2, 'value', a2)
    if a1v != a2v or (a1v != 'no_quantize' and c1 != c2):
      return {'key': 'C12:resolution-differs', 'what':
              f'({op},{sc!r}) resolves to {a1v} before and {a2v} after the JSON round trip',
              'input': desc, 'recipe': r1}
  return found


def main():
  out_path = sys.argv[1]
  tier = os.environ.get('VERIF_TIER', 'quick')
  rng = random.Random(int(os.environ.get('VERIF_SEED', '0')) + 12)
  t0 = time.time()
  viol = []
  evals = 0
  nontrivial = set()
  samples = []
  # 1. shipped files
  files = sorted(glob.glob(os.path.join(RECIPE_DIR, '*.json')))
  rid = cr.Intern()
  oid = cr.Intern()
  exp_states = []
  for f in files:
    with open(f) as fh:
      data = json.load(fh)
    for ent in data:
      rid(ent['regex'])
    rm = recipe_manager.RecipeManager()
    evals += 1
    try:
      rm.load_quantization_recipe(data)
    except Exception as e:  # pylint: disable=broad-except
      viol.append({'key': 'C12:shipped-file-unloadable:' + os.path.basename(f),
                   'what': f'{os.path.basename(f)} does not load: '
                           f'{type(e).__name__}: {e}', 'input': f})
      exp_states.append(vlib.flat([1, cr.exn_code(e)]))
      continue
    state = [[rid(rg), [[rid(r.regex), cr.op_code(r.operation),
                         cr.j_akey(r.algorithm_key, oid), cr.j_ocfg(r.op_config)]
                        for r in rules]]
             for rg, rules in rm._scope_configs.items()]  # pylint: disable=protected-access
    exp_states.append(vlib.flat([0, state]))
    base = os.path.basename(f)
    if base.startswith('default_') or base.startswith('dynamic_'):
      if norm(rm.get_quantization_recipe()) != data:
        viol.append({'key': 'C12:default-recipe-not-reexported', 'what':
                     f'{base} does not re-export to itself', 'input': f})
    v = roundtrip(rm, {'file': base})
    if v:
      viol.append(v)
  helper = norm(recipe_helpers.dynamic_wi8_afp32())
  with open(os.path.join(RECIPE_DIR, 'dynamic_wi8_afp32_recipe.json')) as fh:
    if helper != json.load(fh):
      viol.append({'key': 'C12:helper-differs-from-file', 'what':
                   'recipe.dynamic_wi8_afp32() != dynamic_wi8_afp32_recipe.json',
                   'input': 'recipe.py'})
  # correspondence F: model load of Gen/Recipes vs implementation
  text = '''From VF Require Import Base.Prelude Gen.Enums Gen.Configs Gen.Checks Gen.Recipes Model.Recipe Model.Check Model.RecipeFile.
Open Scope Z_scope.
Eval vm_compute in (map (fun es => flat (Jres J_state (load_raw check ocfg_post_init es))) shipped_recipes).
'''
  got = vlib.run_case_files([('files', text)], jobs=1)['files']
  mism = []
  if len(got) != len(exp_states):
    mism.append({'what': 'number of shipped files', 'impl': len(exp_states),
                 'model': len(got)})
  else:
    for f, g, x in zip(files, got, exp_states):
      if g != x:
        mism.append({'what': 'shipped file load', 'file': os.path.basename(f),
                     'impl': vlib.unflat(x), 'model': vlib.unflat(g)})
  # 2. generated histories
  n = 6000 if tier == 'thorough' else 600
  hist = cr.gen_histories(rng, 'quick', n)
  kinds = {}
  for label, ops, q in hist:
    if label != 'rnd':
      continue
    rm = recipe_manager.RecipeManager()
    cfgs = cr.configs()
    # algorithm keys are given as AlgorithmName members in half of the
    # histories (the API accepts both; JSON turns them into plain strings)
    as_enum = rng.random() < 0.5
    for op in ops:
      if op[0] == 'add':
        alg = op[4]
        if as_enum:
          try:
            alg = algorithm_manager.AlgorithmName(alg)
          except ValueError:
            pass
        try:
          rm.add_quantization_config(op[1], op[2], cfgs[op[3]], alg)
        except ValueError:
          pass
    evals += 1
    r1 = norm(rm.get_quantization_recipe())
    if len(r1) >= 2:
      nontrivial.add(json.dumps(r1, sort_keys=True))
    v = roundtrip(rm, {'ops': [o for o in ops if o[0] == 'add']})
    kinds[v['key'] if v else 'ok'] = kinds.get(v['key'] if v else 'ok', 0) + 1
    if v and not any(x['key'] == v['key'] for x in viol):
      viol.append(v)
    if len(samples) < 3:
      samples.append({'recipe': r1[:3], 'result': v['key'] if v else 'ok'})
  # ---- Quantizer level: the exported recipe always reflects every update made so far,
  # however often it was exported or the model quantized in between; reloaded into a
  # fresh Quantizer it gives the same model ----
  import copy
  import gen_graph as gg
  import gen_recipe as gr
  from ai_edge_quantizer import quantizer
  n_hist = 200 if tier == 'thorough' else 30
  done = tries = 0
  while done < n_hist and tries < n_hist * 5:
    tries += 1
    mb, _info = gg.gen_model(rng, n_subgraphs=1, max_ops=rng.choice([3, 5]))
    rules, _fam = gr.gen_rules(rng, mb, 'float')
    probe = quantizer.Quantizer(bytearray(mb))
    rules = gr.apply_rules(probe, rules)
    if len(rules) < 2:
      continue
    done += 1
    evals += 1
    direct = norm(probe.get_quantization_recipe())
    cut = rng.randrange(1, len(rules))
    qt = quantizer.Quantizer(bytearray(mb))
    gr.apply_rules(qt, rules[:cut])
    qt.get_quantization_recipe()                       # exported once ...
    if rng.random() < 0.5:
      try:
        qt.quantize()                                  # ... or used once
      except Exception:  # pylint: disable=broad-except
        pass
    gr.apply_rules(qt, rules[cut:])                    # then edited further
    exported = norm(qt.get_quantization_recipe())
    inp = {'rules': [list(r) for r in rules], 'exported_after': cut,
           'model_hex': mb.hex() if len(mb) < 20000 else None}
    if exported != direct:
      kinds['export-stale'] = kinds.get('export-stale', 0) + 1
      viol.append({'key': 'C12:export-stale-after-update', 'what':
                   f'after {cut} rules, an export, and {len(rules) - cut} more update(s) the exported recipe has '
                   f'{len(exported)} rules; the same rules entered without the intermediate export give {len(direct)}',
                   'input': inp})
      continue
    try:
      out1 = bytes(qt.quantize().quantized_model)
      fresh = quantizer.Quantizer(bytearray(mb))
      fresh.load_quantization_recipe(copy.deepcopy(exported))
      out2 = bytes(fresh.quantize().quantized_model)
      if out1 != out2:
        viol.append({'key': 'C12:reloaded-recipe-gives-other-model', 'what':
                     'quantize() of the edited Quantizer and of a fresh Quantizer loaded with its exported recipe differ',
                     'input': inp})
    except Exception:  # pylint: disable=broad-except
      pass
  kinds['quantizer_level_histories'] = done
  out = {
      'interface': 'F', 'evaluations': evals,
      'distinct_nontrivial': len(nontrivial),
      'n_mismatches': len(mism), 'mismatches': mism,
      'oracle_violations': viol, 'outcome_counts': kinds,
      'shipped_files': [os.path.basename(f) for f in files],
      'samples': samples, 'wall_s': time.time() - t0,
  }
  with open(out_path, 'w') as f:
    json.dump(out, f, indent=1, default=str)
  print(f'oracle C12: {evals} round trips, outcomes {kinds}, '
        f'{len(mism)} file mismatches')


if __name__ == '__main__':
  main()
