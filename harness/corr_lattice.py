"""Exhaustive finite-domain correspondence for the translated checkers,
policy unrolling, registry and mode decision (interface G; C13, C03, C11).

Enumerates the C13 lattice in exactly the order of Model/Lattice.v.
"""
import json
import os
import sys
import time

sys.path.insert(0, os.path.dirname(os.path.abspath(__file__)))
import vlib
from absl import logging as _l
_l.set_verbosity(_l.ERROR)

from ai_edge_quantizer import algorithm_manager
from ai_edge_quantizer import default_policy
from ai_edge_quantizer import qtyping
from ai_edge_quantizer.algorithms.utils import min_max_quantize_utils as mmu
import corr_recipe as cr

T = qtyping.TensorQuantizationConfig
O = qtyping.OpQuantizationConfig
G = qtyping.QuantGranularity
D = qtyping.TensorDataType
P = qtyping.ComputePrecision
ALGS = ['min_max_uniform_quantize', 'float_casting']
OPS = [o for o in qtyping.TFLOperationName if o.value != '*']
ACTS = [None, T(8, True), T(8, False), T(16, True), T(16, False)]
WTS = [(b, s, g, d) for b in (4, 8, 16) for s in (True, False)
       for g in (G.TENSORWISE, G.CHANNELWISE) for d in (D.INT, D.FLOAT)]


def lattice():
  for alg in ALGS:
    for op in OPS:
      for a in ACTS:
        for (b, s, g, d) in WTS:
          for p in (P.INTEGER, P.FLOAT):
            for e in (False, True):
              yield alg, op, a, (b, s, g, d), p, e


def classify(alg, op, a, w, p, e):
  try:
    cfg = O(a, T(w[0], w[1], w[2], w[3]), p, e)
  except ValueError:
    return 0, None
  except Exception:  # pylint: disable=broad-except
    return 3, None
  try:
    algorithm_manager.check_op_quantization_config(alg, op, cfg)
    return 2, cfg
  except ValueError:
    return 1, cfg
  except Exception:  # pylint: disable=broad-except
    return 3, cfg


def main():
  out_path = sys.argv[1]
  t0 = time.time()
  exp_class = []
  accepted = []
  cfg_seen = {}
  for pt in lattice():
    c, cfg = classify(*pt)
    exp_class.append(c)
    if c == 2:
      accepted.append((pt[0], pt[1].value, repr(cfg)))
  # get_tensor_transformations over all constructible lattice configs
  tr_codes = [t for t in qtyping.QuantTransformation]
  exp_tr = []
  for a in ACTS:
    for (b, s, g, d) in WTS:
      for p in (P.INTEGER, P.FLOAT):
        for e in (False, True):
          try:
            cfg = O(a, T(b, s, g, d), p, e)
          except ValueError:
            exp_tr.append([9])
            continue
          row = []
          for ib in (False, True):
            for k in (False, True):
              try:
                r = mmu.get_tensor_transformations(cfg, ib, k)
                row.append([0, [tr_codes.index(x) for x in r]])
              except Exception as ex:  # pylint: disable=broad-except
                row.append([1, cr.exn_code(ex)])
          exp_tr.append(vlib.flat(row))
  # policy table
  pol = default_policy.DEFAULT_CONFIG_CHECK_POLICY
  exp_pol = vlib.flat([[cr.op_code(k), [cr.j_ocfg(c) for c in v]]
                       for k, v in pol.items()])
  # registry
  exp_reg = []
  for alg in ['no_quantize'] + ALGS:
    for op in qtyping.TFLOperationName:
      exp_reg.append(1 if algorithm_manager.is_op_registered(alg, op) else 0)

  text = '''From VF Require Import Base.Prelude Gen.Enums Gen.Configs Gen.Registry Gen.Checks Model.Recipe Model.Check Model.Lattice.
Open Scope Z_scope.
Definition tr_rows : list (list Z) :=
  map (fun c => match ocfg_post_init c with
                | Err _ => [9]
                | Ok _ => flat (JL (flat_map (fun ib => map (fun k =>
                    Jres (Jlist (fun t => JZ (qtrans_code t)))
                         (get_tensor_transformations c ib k)) [false; true]) [false; true]))
                end) lat_cfgs.
Definition reg_row : list Z :=
  flat_map (fun a => map (fun o => if is_op_registered (AK a) o then 1 else 0) opname_all)
           [Alg_NO_QUANTIZE; Alg_MIN_MAX_UNIFORM_QUANT; Alg_FLOAT_CASTING].
Eval vm_compute in ([map classify lattice; flat (J_policy DEFAULT_CONFIG_CHECK_POLICY); reg_row] ++ tr_rows).
'''
  res = vlib.run_case_files([('lattice', text)], jobs=1)['lattice']
  mism = []
  got_class, got_pol, got_reg, got_tr = res[0], res[1], res[2], res[3:]
  pts = list(lattice())
  if len(got_class) != len(exp_class):
    mism.append({'what': 'lattice size', 'impl': len(exp_class),
                 'model': len(got_class)})
  else:
    for i, (g, x) in enumerate(zip(got_class, exp_class)):
      if g != x:
        pt = pts[i]
        mism.append({'what': 'classify', 'point': [pt[0], pt[1].value,
                                                   repr(pt[2]), repr(pt[3]),
                                                   pt[4].value, pt[5]],
                     'impl': x, 'model': g})
  if got_pol != exp_pol:
    mism.append({'what': 'DEFAULT_CONFIG_CHECK_POLICY differs'})
  if got_reg != exp_reg:
    mism.append({'what': 'registry differs', 'impl': exp_reg, 'model': got_reg})
  if len(got_tr) != len(exp_tr):
    mism.append({'what': 'transformation rows count'})
  else:
    for i, (g, x) in enumerate(zip(got_tr, exp_tr)):
      if g != x:
        mism.append({'what': 'get_tensor_transformations', 'row': i,
                     'impl': x, 'model': g})
  # oracle: an accepted pair must never produce a non-ValueError failure and a
  # class-3 point is a violation by itself
  viol = [{'key': 'C13:other-exception', 'what': 'lattice point raises an '
           'exception other than ValueError', 'input': list(map(str, pts[i]))}
          for i, c in enumerate(exp_class) if c == 3]
  out = {
      'interface': 'G',
      'evaluations': len(exp_class) + len(exp_tr) + len(exp_reg) + 1,
      'distinct_nontrivial': len(accepted),
      'exhaustive': True,
      'n_mismatches': len(mism), 'mismatches': mism[:10],
      'oracle_violations': viol[:5],
      'accepted_pairs': len(accepted),
      'class_counts': {str(k): exp_class.count(k) for k in (0, 1, 2, 3)},
      'samples': [{'accepted': accepted[0]}, {'accepted': accepted[-1]}],
      'wall_s': time.time() - t0,
  }
  with open(out_path, 'w') as f:
    json.dump(out, f, indent=1, default=str)
  print(f'corr G: {len(exp_class)} lattice points, {len(mism)} mismatches')


if __name__ == '__main__':
  main()
